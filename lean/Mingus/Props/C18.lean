import Mingus.Model.Sequencer
import Mathlib.Data.List.Nodup
/-
  C18 — sequencer playback emits a balanced, ordered, correctly timed event stream.

  `Ext st st' evs`: `st'` is `st` after the hook events `evs`, and every attached observer received exactly `evs`
  while nobody else received anything.  Every operation of the model — including the parallel scheduler, whatever it
  does — satisfies `Ext` for some `evs` (`observers_*`): observers see what the hooks see.  For the sequential
  operations `evs` is given in closed form (`playBar_spec`, `playTrack_spec`): per entry the note-ons, one sleep, the
  matching note-offs.  The parallel scheduler is refuted on unequal rhythms by a kernel-evaluated run
  (`parallel_counterexample`, known finding C18-parallel-scheduler).
-/
namespace Mingus.Props.C18
open Mingus Mingus.Seq Mingus.Containers

/-! ### the observer registry -/

def WF (st : St) : Prop := st.obs.length = 2 ∧ st.listeners.Nodup ∧ ∀ k ∈ st.listeners, k < 2

def Ext (st st' : St) (evs : List SEv) : Prop :=
  st'.hooks = st.hooks ++ evs ∧ st'.listeners = st.listeners ∧ st'.obs.length = st.obs.length ∧
  ∀ k, st'.obs.getD k [] = st.obs.getD k [] ++ (if k ∈ st.listeners then evs else [])

theorem Ext.refl (st : St) : Ext st st [] := by simp [Ext]

theorem Ext.trans {a b c : St} {x y : List SEv} (h1 : Ext a b x) (h2 : Ext b c y) : Ext a c (x ++ y) := by
  obtain ⟨a1, a2, a3, a4⟩ := h1
  obtain ⟨b1, b2, b3, b4⟩ := h2
  refine ⟨by rw [b1, a1, List.append_assoc], by rw [b2, a2], by rw [b3, a3], ?_⟩
  intro k
  rw [b4 k, a4 k, a2]
  by_cases hk : k ∈ a.listeners <;> simp [hk]

theorem Ext.wf {a b : St} {x : List SEv} (h : Ext a b x) (hw : WF a) : WF b := by
  obtain ⟨_, a2, a3, _⟩ := h
  exact ⟨by rw [a3]; exact hw.1, by rw [a2]; exact hw.2.1, by rw [a2]; exact hw.2.2⟩

theorem addAt_length {α} (l : List α) (i : Nat) (f : α → α) : (addAt l i f).length = l.length := by simp [addAt]

theorem addAt_getD (l : List (List SEv)) (i k : Nat) (f : List SEv → List SEv) :
    (addAt l i f).getD k [] = if k = i ∧ k < l.length then f (l.getD k []) else l.getD k [] := by
  unfold addAt
  by_cases hk : k < l.length
  · have h1 : l[k]? = some l[k] := List.getElem?_eq_getElem hk
    by_cases hki : k = i
    · subst hki
      simp [List.getD_eq_getElem?_getD, List.getElem?_mapIdx, h1, hk]
    · simp [List.getD_eq_getElem?_getD, List.getElem?_mapIdx, h1, hki]
  · have h1 : l[k]? = none := List.getElem?_eq_none (by omega)
    simp [List.getD_eq_getElem?_getD, List.getElem?_mapIdx, h1, hk]

theorem deliver_getD (e : SEv) (ls : List Nat) : ∀ (o : List (List SEv)), ls.Nodup → (∀ k ∈ ls, k < o.length) →
    ∀ k, (ls.foldl (fun o k => addAt o k (· ++ [e])) o).getD k [] = o.getD k [] ++ (if k ∈ ls then [e] else []) := by
  induction ls with
  | nil => intro o _ _ k; simp
  | cons a as ih =>
    intro o hnd hlt k
    simp only [List.nodup_cons] at hnd
    simp only [List.foldl_cons]
    rw [ih (addAt o a (· ++ [e])) hnd.2 (by intro j hj; rw [addAt_length]; exact hlt j (by simp [hj])) k, addAt_getD]
    have ha := hlt a (by simp)
    by_cases hka : k = a
    · subst hka
      have : k ∉ as := hnd.1
      simp [ha, this]
    · simp [hka]

theorem deliver_length (e : SEv) (ls : List Nat) : ∀ (o : List (List SEv)),
    (ls.foldl (fun o k => addAt o k (· ++ [e])) o).length = o.length := by
  induction ls with
  | nil => intro o; rfl
  | cons a as ih => intro o; simp only [List.foldl_cons]; rw [ih, addAt_length]

/-- a hook event reaches every attached observer exactly once and nobody else -/
theorem emit_ext (st : St) (e : SEv) (hw : WF st) : Ext st (emit st e) [e] := by
  obtain ⟨h1, h2, h3⟩ := hw
  refine ⟨rfl, rfl, by simp [emit, deliver_length], ?_⟩
  intro k
  simp only [emit]
  exact deliver_getD e st.listeners st.obs h2 (by intro j hj; rw [h1]; exact h3 j hj) k

theorem notifyHigh_ext (st : St) : Ext st (notifyHigh st) [] := by simp [Ext, notifyHigh]

/-- attaching twice is attaching once -/
theorem attach_idem (st : St) (k : Nat) : attach (attach st k) k = attach st k := by
  by_cases h : k ∈ st.listeners
  · simp [attach, h]
  · simp [attach, h]

theorem attach_wf (st : St) (k : Nat) (hk : k < 2) (hw : WF st) : WF (attach st k) := by
  by_cases h : k ∈ st.listeners
  · simpa [attach, h] using hw
  · simp only [attach, List.contains_iff_mem, h, if_false]
    refine ⟨hw.1, ?_, ?_⟩
    · exact List.nodup_append.2 ⟨hw.2.1, by simp, by intro a ha b hb; simp at hb; subst hb; intro e; exact h (e ▸ ha)⟩
    · intro j hj; simp at hj; rcases hj with hj | hj; exact hw.2.2 j hj; omega

theorem detach_wf (st : St) (k : Nat) (hw : WF st) : WF (detach st k) := by
  refine ⟨hw.1, hw.2.1.erase k, ?_⟩
  intro j hj; exact hw.2.2 j (List.mem_of_mem_erase hj)

/-- after detaching, the observer is not a listener: by `emit_ext` nothing more is delivered to it -/
theorem detach_not_listening (st : St) (k : Nat) (hw : WF st) : k ∉ (detach st k).listeners := by
  simp only [detach]
  intro h
  exact (List.Nodup.mem_erase_iff hw.2.1).1 h |>.1 rfl

theorem attach_listening (st : St) (k : Nat) : k ∈ (attach st k).listeners := by
  by_cases h : k ∈ st.listeners
  · simp [attach, h]
  · simp [attach, h]

/-! ### control changes -/

/-- refused exactly when the number or the value is below 0 or above 128; a refused change emits nothing -/
theorem cc_guard (st : St) (ch c v : Int) :
    ((controlChange st ch c v).1 = false ↔ (c < 0 ∨ c > 128 ∨ v < 0 ∨ v > 128)) ∧
    ((controlChange st ch c v).1 = false → (controlChange st ch c v).2 = st) ∧
    ((controlChange st ch c v).1 = true → (controlChange st ch c v).2 = emit st (.cc ch c v)) := by
  unfold controlChange
  by_cases h1 : c < 0 ∨ c > 128
  · simp [h1] <;> omega
  · by_cases h2 : v < 0 ∨ v > 128
    · simp [h1, h2] <;> omega
    · simp [h1, h2] <;> omega

/-! ### notes, containers, bars, tracks: closed forms -/

def okN (n : Note) : Prop := n.toInt = .ok n.pitch

def onE (n : Note) : SEv := .play (n.pitch + 12) n.channel n.velocity
def offE (n : Note) : SEv := .stop (n.pitch + 12) n.channel

theorem playNote_spec (st : St) (n : Note) (h : okN n) (hw : WF st) :
    ∃ st', playNote st n = .ok st' ∧ Ext st st' [onE n] := by
  unfold okN at h
  refine ⟨notifyHigh (emit st (onE n)), by simp only [playNote, h, bind, Except.bind, pure, Except.pure, onE], ?_⟩
  have := Ext.trans (emit_ext st (onE n) hw) (notifyHigh_ext _)
  simpa [onE] using this

theorem stopNote_spec (st : St) (n : Note) (h : okN n) (hw : WF st) :
    ∃ st', stopNote st n = .ok st' ∧ Ext st st' [offE n] := by
  unfold okN at h
  refine ⟨notifyHigh (emit st (offE n)), by simp only [stopNote, h, bind, Except.bind, pure, Except.pure, offE], ?_⟩
  have := Ext.trans (emit_ext st (offE n) hw) (notifyHigh_ext _)
  simpa [offE] using this

theorem foldl_notes (f : St → Note → Except Err St) (g : Note → SEv)
    (step : ∀ st n, okN n → WF st → ∃ st', f st n = .ok st' ∧ Ext st st' [g n]) (ns : List Note) :
    ∀ st, (∀ n ∈ ns, okN n) → WF st → ∃ st', ns.foldlM f st = .ok st' ∧ Ext st st' (ns.map g) := by
  induction ns with
  | nil => intro st _ _; exact ⟨st, rfl, Ext.refl st⟩
  | cons n ns ih =>
    intro st h hw
    obtain ⟨s1, e1, x1⟩ := step st n (h n (by simp)) hw
    obtain ⟨s2, e2, x2⟩ := ih s1 (fun m hm => h m (by simp [hm])) (x1.wf hw)
    refine ⟨s2, by rw [List.foldlM_cons, e1]; exact e2, ?_⟩
    simpa using Ext.trans x1 x2

def ncNotes (c : Option NC) : List Note := match c with | some l => l | none => []

theorem playNC_spec (st : St) (c : Option NC) (h : ∀ n ∈ ncNotes c, okN n) (hw : WF st) :
    ∃ st', playNC st c = .ok st' ∧ Ext st st' ((ncNotes c).map onE) := by
  cases c with
  | none => exact ⟨_, rfl, by simpa [ncNotes] using notifyHigh_ext st⟩
  | some l =>
    obtain ⟨s, e, x⟩ := foldl_notes playNote onE playNote_spec l (notifyHigh st) h ((notifyHigh_ext st).wf hw)
    exact ⟨s, e, by simpa [ncNotes] using Ext.trans (notifyHigh_ext st) x⟩

theorem stopNC_spec (st : St) (c : Option NC) (h : ∀ n ∈ ncNotes c, okN n) (hw : WF st) :
    ∃ st', stopNC st c = .ok st' ∧ Ext st st' ((ncNotes c).map offE) := by
  cases c with
  | none => exact ⟨_, rfl, by simpa [ncNotes] using notifyHigh_ext st⟩
  | some l =>
    obtain ⟨s, e, x⟩ := foldl_notes stopNote offE stopNote_spec l (notifyHigh st) h ((notifyHigh_ext st).wf hw)
    exact ⟨s, e, by simpa [ncNotes] using Ext.trans (notifyHigh_ext st) x⟩

/-- the tempo in force after an entry -/
def tempoAfter (bpm : Int) (e : SEntry) : Int := match e.bpm with | some b => b | none => bpm

/-- one entry: its note-ons, one sleep of its length at the tempo in force, its note-offs -/
def entryTrace (bpm : Int) (e : SEntry) : List SEv :=
  (ncNotes e.content).map onE ++ [.sleep (secs (tempoAfter bpm e) e.value)] ++ (ncNotes e.content).map offE

def okE (bpm : Int) (e : SEntry) : Prop := (∀ n ∈ ncNotes e.content, okN n) ∧ tempoAfter bpm e ≠ 0 ∧ e.value ≠ 0

theorem playEntry_spec (st : St) (bpm : Int) (e : SEntry) (h : okE bpm e) (hw : WF st) :
    ∃ st', playEntry (st, bpm) e = .ok (st', tempoAfter bpm e) ∧ Ext st st' (entryTrace bpm e) := by
  obtain ⟨h1, h2, h3⟩ := h
  obtain ⟨s1, e1, x1⟩ := playNC_spec st e.content h1 hw
  have x2 := emit_ext s1 (.sleep (secs (tempoAfter bpm e) e.value)) (x1.wf hw)
  obtain ⟨s3, e3, x3⟩ := stopNC_spec _ e.content h1 (x2.wf (x1.wf hw))
  refine ⟨s3, ?_, ?_⟩
  · cases hb : e.bpm with
    | none =>
      have ht : tempoAfter bpm e = bpm := by simp [tempoAfter, hb]
      rw [ht] at h2 e3 ⊢
      simp only [playEntry, bind, Except.bind, e1, hb]
      rw [if_neg h2, if_neg h3]
      simp only [e3, pure, Except.pure]
    | some b =>
      have ht : tempoAfter bpm e = b := by simp [tempoAfter, hb]
      rw [ht] at h2 e3 ⊢
      simp only [playEntry, bind, Except.bind, e1, hb]
      rw [if_neg h2, if_neg h3]
      simp only [e3, pure, Except.pure]
  · simpa [entryTrace, List.append_assoc] using Ext.trans (Ext.trans x1 x2) x3

def entriesTrace : Int → List SEntry → List SEv × Int
  | bpm, [] => ([], bpm)
  | bpm, e :: es => (entryTrace bpm e ++ (entriesTrace (tempoAfter bpm e) es).1, (entriesTrace (tempoAfter bpm e) es).2)

def okEs : Int → List SEntry → Prop
  | _, [] => True
  | bpm, e :: es => okE bpm e ∧ okEs (tempoAfter bpm e) es

theorem entries_spec (es : List SEntry) : ∀ (st : St) (bpm : Int), okEs bpm es → WF st →
    ∃ st', es.foldlM playEntry (st, bpm) = .ok (st', (entriesTrace bpm es).2) ∧ Ext st st' (entriesTrace bpm es).1 := by
  induction es with
  | nil => intro st bpm _ _; exact ⟨st, rfl, Ext.refl st⟩
  | cons e es ih =>
    intro st bpm h hw
    obtain ⟨s1, e1, x1⟩ := playEntry_spec st bpm e h.1 hw
    obtain ⟨s2, e2, x2⟩ := ih s1 _ h.2 (x1.wf hw)
    exact ⟨s2, by rw [List.foldlM_cons, e1]; exact e2, by simpa [entriesTrace] using Ext.trans x1 x2⟩

/-- **play_Bar**: for every bar — chords, rests (None or empty), tempo-changing containers — the hook trace is, per
    entry in order, the note-ons (pitch + 12, own channel, own velocity), one sleep, the matching note-offs; every
    attached observer receives exactly that; the value returned is the last tempo. -/
theorem playBar_spec (st : St) (b : SBar) (bpm : Int) (hb : bpm ≠ 0) (h : okEs bpm b.entries) (hw : WF st) :
    ∃ st', playBar st b bpm = .ok (st', (entriesTrace bpm b.entries).2) ∧ Ext st st' (entriesTrace bpm b.entries).1 := by
  obtain ⟨s, e, x⟩ := entries_spec b.entries (notifyHigh st) bpm h ((notifyHigh_ext st).wf hw)
  refine ⟨s, by unfold playBar; rw [if_neg hb]; exact e, ?_⟩
  simpa using Ext.trans (notifyHigh_ext st) x

def barsTrace : Int → List SBar → List SEv × Int
  | bpm, [] => ([], bpm)
  | bpm, b :: bs => ((entriesTrace bpm b.entries).1 ++ (barsTrace (entriesTrace bpm b.entries).2 bs).1,
                    (barsTrace (entriesTrace bpm b.entries).2 bs).2)

def okBs : Int → List SBar → Prop
  | _, [] => True
  | bpm, b :: bs => bpm ≠ 0 ∧ okEs bpm b.entries ∧ okBs (entriesTrace bpm b.entries).2 bs

/-- **play_Track**: the bars one after the other, the tempo carried from bar to bar -/
theorem playTrack_spec (bs : List SBar) (st : St) (bpm : Int) (h : okBs bpm bs) (hw : WF st) :
    ∃ st', playTrack st bs bpm = .ok (st', (barsTrace bpm bs).2) ∧ Ext st st' (barsTrace bpm bs).1 := by
  have key : ∀ (bs : List SBar) (st : St) (bpm : Int), okBs bpm bs → WF st →
      ∃ st', bs.foldlM (fun acc b => playBar acc.1 b acc.2) (st, bpm) = .ok (st', (barsTrace bpm bs).2) ∧
        Ext st st' (barsTrace bpm bs).1 := by
    intro bs
    induction bs with
    | nil => intro st bpm _ _; exact ⟨st, rfl, Ext.refl st⟩
    | cons b bs ih =>
      intro st bpm h hw
      obtain ⟨s1, e1, x1⟩ := playBar_spec st b bpm h.1 h.2.1 hw
      obtain ⟨s2, e2, x2⟩ := ih s1 _ h.2.2 (x1.wf hw)
      exact ⟨s2, by rw [List.foldlM_cons]; simp only [e1, bind, Except.bind]; exact e2, by simpa [barsTrace] using Ext.trans x1 x2⟩
  obtain ⟨s, e, x⟩ := key bs (notifyHigh st) bpm h ((notifyHigh_ext st).wf hw)
  exact ⟨s, e, by simpa using Ext.trans (notifyHigh_ext st) x⟩

/-! ### balance and time of the sequential trace -/

/-- replay play/stop events against the set of sounding (pitch, channel) keys -/
def sound : List (Int × Int) → List SEv → Option (List (Int × Int))
  | on, [] => some on
  | on, .play p c _ :: rest => if (p, c) ∈ on then none else sound ((p, c) :: on) rest
  | on, .stop p c :: rest => if (p, c) ∈ on then sound (on.erase (p, c)) rest else none
  | on, _ :: rest => sound on rest

def slept : List SEv → List Rat
  | [] => []
  | .sleep s :: rest => s :: slept rest
  | _ :: rest => slept rest

theorem slept_append (a b : List SEv) : slept (a ++ b) = slept a ++ slept b := by
  induction a with
  | nil => rfl
  | cons e es ih => cases e <;> simp [slept, ih]

theorem slept_map_on (ns : List Note) : slept (ns.map onE) = [] := by
  induction ns with
  | nil => rfl
  | cons n ns ih => simp [slept, onE, ih]
theorem slept_map_off (ns : List Note) : slept (ns.map offE) = [] := by
  induction ns with
  | nil => rfl
  | cons n ns ih => simp [slept, offE, ih]

/-- **time**: the sleeps of a bar are, entry by entry, `60/bpm · 4/value` seconds at the tempo in force -/
theorem slept_entries (es : List SEntry) : ∀ bpm,
    slept (entriesTrace bpm es).1 = (es.zip (es.scanl tempoAfter bpm).tail).map fun p => secs p.2 p.1.value := by
  induction es with
  | nil => intro bpm; rfl
  | cons e es ih =>
    intro bpm
    simp only [entriesTrace, entryTrace, slept_append, slept_map_on, slept_map_off, slept, List.nil_append, List.append_nil,
      List.scanl_cons, List.tail_cons]
    rw [ih (tempoAfter bpm e)]
    cases es with
    | nil => simp
    | cons e2 es2 => simp [List.scanl_cons]

theorem sound_ons (ns : List Note) : ∀ (on : List (Int × Int)) (rest : List SEv),
    (ns.map fun m => (m.pitch + 12, m.channel)).Nodup → (∀ m ∈ ns, (m.pitch + 12, m.channel) ∉ on) →
    sound on (ns.map onE ++ rest) = sound ((ns.map fun m => (m.pitch + 12, m.channel)).reverse ++ on) rest := by
  induction ns with
  | nil => intro on rest _ _; rfl
  | cons n ns ih =>
    intro on rest hnd hfresh
    simp only [List.map_cons, List.nodup_cons] at hnd
    have h1 := hfresh n (by simp)
    simp only [List.map_cons, List.cons_append, onE, sound, if_neg h1]
    have := ih ((n.pitch + 12, n.channel) :: on) rest hnd.2 (by
      intro m hm
      simp only [List.mem_cons, not_or]
      refine ⟨?_, hfresh m (by simp [hm])⟩
      intro heq
      exact hnd.1 (heq ▸ List.mem_map.2 ⟨m, hm, rfl⟩))
    rw [this]; simp

theorem sound_offs (ns : List Note) : ∀ (on : List (Int × Int)) (rest : List SEv),
    (ns.map fun m => (m.pitch + 12, m.channel)).Nodup → on.Nodup → (∀ m ∈ ns, (m.pitch + 12, m.channel) ∈ on) →
    ∃ on', sound on (ns.map offE ++ rest) = sound on' rest ∧ on'.Nodup ∧
      (∀ k, k ∈ on' ↔ k ∈ on ∧ k ∉ ns.map fun m => (m.pitch + 12, m.channel)) := by
  induction ns with
  | nil => intro on rest _ hon _; exact ⟨on, rfl, hon, by simp⟩
  | cons n ns ih =>
    intro on rest hnd hon hmem
    simp only [List.map_cons, List.nodup_cons] at hnd
    have h1 := hmem n (by simp)
    have hmem' : ∀ m ∈ ns, (m.pitch + 12, m.channel) ∈ on.erase (n.pitch + 12, n.channel) := by
      intro m hm
      rw [List.Nodup.mem_erase_iff hon]
      refine ⟨?_, hmem m (by simp [hm])⟩
      intro heq
      exact hnd.1 (heq ▸ List.mem_map.2 ⟨m, hm, rfl⟩)
    obtain ⟨on', h2, h3, h4⟩ := ih (on.erase (n.pitch + 12, n.channel)) rest hnd.2 (hon.erase _) hmem'
    refine ⟨on', ?_, h3, ?_⟩
    · simp only [List.map_cons, List.cons_append, offE, sound, if_pos h1]
      exact h2
    · intro k
      rw [h4 k, List.Nodup.mem_erase_iff hon]
      simp only [List.map_cons, List.mem_cons, not_or]
      constructor
      · rintro ⟨⟨a, b⟩, c⟩; exact ⟨b, a, c⟩
      · rintro ⟨a, b, c⟩; exact ⟨⟨b, a⟩, c⟩

def distinct (es : List SEntry) : Prop := ∀ e ∈ es, ((ncNotes e.content).map fun m => (m.pitch + 12, m.channel)).Nodup

/-- **balance**: played from silence, a bar's trace never starts a sounding note again, never stops a silent one and
    ends in silence (each entry's notes being distinct as (pitch, channel)) -/
theorem entries_balanced (es : List SEntry) (hd : distinct es) : ∀ (bpm : Int) (rest : List SEv),
    sound [] ((entriesTrace bpm es).1 ++ rest) = sound [] rest := by
  induction es with
  | nil => intro bpm rest; rfl
  | cons e es ih =>
    intro bpm rest
    have hnd := hd e (by simp)
    simp only [entriesTrace, entryTrace, List.append_assoc]
    rw [sound_ons (ncNotes e.content) [] _ hnd (by simp)]
    simp only [List.cons_append, List.nil_append, sound]
    obtain ⟨on', h1, _, h3⟩ := sound_offs (ncNotes e.content)
      (((ncNotes e.content).map fun m => (m.pitch + 12, m.channel)).reverse ++ []) ((entriesTrace (tempoAfter bpm e) es).1 ++ rest) hnd
      (by simpa using List.nodup_reverse.2 hnd) (by intro m hm; simp; exact ⟨m, hm, rfl, rfl⟩)
    rw [h1]
    have : on' = [] := by
      apply List.eq_nil_iff_forall_not_mem.2
      intro k hk
      have := (h3 k).1 hk
      simp only [List.append_nil, List.mem_reverse] at this
      exact this.2 this.1
    rw [this]
    exact ih (fun x hx => hd x (by simp [hx])) _ rest



/-! ### observers see what the hooks see — for every operation, whatever it does -/

/-- "`st'` is `st` after some hook events that every attached observer received too" -/
def Sync (st st' : St) : Prop := ∃ evs, Ext st st' evs

theorem Sync.refl (st : St) : Sync st st := ⟨[], Ext.refl st⟩
theorem Sync.trans {a b c : St} (h1 : Sync a b) (h2 : Sync b c) : Sync a c := by
  obtain ⟨x, hx⟩ := h1; obtain ⟨y, hy⟩ := h2; exact ⟨x ++ y, hx.trans hy⟩
theorem Sync.wf {a b : St} (h : Sync a b) (hw : WF a) : WF b := by obtain ⟨x, hx⟩ := h; exact hx.wf hw

theorem playNote_sync (st st' : St) (n : Note) (h : playNote st n = .ok st') (hw : WF st) : Sync st st' := by
  unfold playNote at h
  cases hp : n.toInt with
  | error e => simp [hp, bind, Except.bind] at h
  | ok p =>
    simp only [hp, bind, Except.bind, pure, Except.pure, Except.ok.injEq] at h
    subst h
    exact ⟨_, (emit_ext st _ hw).trans (notifyHigh_ext _)⟩

theorem stopNote_sync (st st' : St) (n : Note) (h : stopNote st n = .ok st') (hw : WF st) : Sync st st' := by
  unfold stopNote at h
  cases hp : n.toInt with
  | error e => simp [hp, bind, Except.bind] at h
  | ok p =>
    simp only [hp, bind, Except.bind, pure, Except.pure, Except.ok.injEq] at h
    subst h
    exact ⟨_, (emit_ext st _ hw).trans (notifyHigh_ext _)⟩

theorem foldlM_sync {α} (f : St → α → Except Err St) (step : ∀ st st' a, f st a = .ok st' → WF st → Sync st st') (l : List α) :
    ∀ st st', l.foldlM f st = .ok st' → WF st → Sync st st' := by
  induction l with
  | nil => intro st st' h _; simp only [List.foldlM_nil, pure, Except.pure, Except.ok.injEq] at h; subst h; exact Sync.refl _
  | cons a as ih =>
    intro st st' h hw
    rw [List.foldlM_cons] at h
    cases h1 : f st a with
    | error e => simp [h1, bind, Except.bind] at h
    | ok s1 =>
      simp only [h1, bind, Except.bind] at h
      have x1 := step st s1 a h1 hw
      exact x1.trans (ih s1 st' h (x1.wf hw))

theorem playNC_sync (st st' : St) (c : Option NC) (h : playNC st c = .ok st') (hw : WF st) : Sync st st' := by
  cases c with
  | none => simp only [playNC, pure, Except.pure, Except.ok.injEq] at h; subst h; exact ⟨_, notifyHigh_ext st⟩
  | some l =>
    have x0 : Sync st (notifyHigh st) := ⟨_, notifyHigh_ext st⟩
    exact x0.trans (foldlM_sync playNote playNote_sync l _ _ h (x0.wf hw))

theorem stopNC_sync (st st' : St) (c : Option NC) (h : stopNC st c = .ok st') (hw : WF st) : Sync st st' := by
  cases c with
  | none => simp only [stopNC, pure, Except.pure, Except.ok.injEq] at h; subst h; exact ⟨_, notifyHigh_ext st⟩
  | some l =>
    have x0 : Sync st (notifyHigh st) := ⟨_, notifyHigh_ext st⟩
    exact x0.trans (foldlM_sync stopNote stopNote_sync l _ _ h (x0.wf hw))

theorem startDue_sync (bars : List SBar) (chans : List Int) (tick : Rat) (l : List (Nat × Nat)) :
    ∀ (st : St) (bpm : Int) (pn : List (Rat × Nat)) (pl : List Playing) (r : St × Int × List (Rat × Nat) × List Playing),
      startDue bars chans tick l (st, bpm, pn, pl) = .ok r → WF st → Sync st r.1 := by
  induction l with
  | nil => intro st bpm pn pl r h _; simp only [startDue, pure, Except.pure, Except.ok.injEq] at h; subst h; exact Sync.refl _
  | cons a as ih =>
    intro st bpm pn pl r h hw
    obtain ⟨n, x⟩ := a
    simp only [startDue, bind, Except.bind] at h
    split at h
    · cases h
    · split at h
      · cases h
      · split at h
        · split at h
          · cases h
          · split at h
            · cases h
            · rename_i s1 h1
              have x1 := playNC_sync st s1 _ h1 hw
              exact x1.trans (ih _ _ _ _ r h (x1.wf hw))
        · exact ih _ _ _ _ r h hw

theorem settle_sync (bars : List SBar) (shortest : Rat) (l : List Playing) :
    ∀ (st : St) (cur : List Nat) (keep : List Playing) (r : St × List Nat × List Playing),
      settle bars shortest l (st, cur, keep) = .ok r → WF st → Sync st r.1 := by
  induction l with
  | nil => intro st cur keep r h _; simp only [settle, pure, Except.pure, Except.ok.injEq] at h; subst h; exact Sync.refl _
  | cons p ps ih =>
    intro st cur keep r h hw
    simp only [settle, bind, Except.bind] at h
    split at h
    · exact ih _ _ _ r h hw
    · split at h
      · cases h
      · rename_i s1 h1
        have x1 := stopNC_sync st s1 _ h1 hw
        exact x1.trans (ih _ _ _ r h (x1.wf hw))

theorem barsLoop_sync (bars : List SBar) (chans : List Int) (len0 : Rat) (fuel : Nat) :
    ∀ (st : St) (bpm : Int) (tick : Rat) (cur : List Nat) (pl : List Playing) (r : St × Option Int × List Playing),
      barsLoop bars chans len0 fuel st bpm tick cur pl = .ok r → WF st → Sync st r.1 := by
  induction fuel with
  | zero => intro st bpm tick cur pl r h _; simp [barsLoop] at h
  | succ f ih =>
    intro st bpm tick cur pl r h hw
    simp only [barsLoop, bind, Except.bind] at h
    split at h
    · simp only [pure, Except.pure, Except.ok.injEq] at h; subst h; exact Sync.refl _
    · split at h
      · cases h
      · rename_i r1 h1
        obtain ⟨s1, bpm1, pn1, pl1⟩ := r1
        have x1 := startDue_sync bars chans tick _ st bpm [] pl _ h1 hw
        simp only at h x1
        split at h
        · cases h
        · split at h
          · simp only [pure, Except.pure, Except.ok.injEq] at h; subst h; exact x1
          · split at h
            · simp only [pure, Except.pure] at h
              split at h
              · cases h
              · split at h
                · cases h
                · rename_i r3 h3
                  have x2 := emit_ext s1 (.sleep (F64.mul (F64.div 60 bpm1) (F64.div 4 (maxLen (pn1.map (·.1)))))) (x1.wf hw)
                  have x3 := settle_sync bars (maxLen (pn1.map (·.1))) pl1 _ cur [] _ h3 (x2.wf (x1.wf hw))
                  exact (x1.trans ⟨_, x2⟩).trans (x3.trans (ih _ _ _ _ _ r h (x3.wf (x2.wf (x1.wf hw)))))
            · split at h
              · simp only [pure, Except.pure] at h
                split at h
                · cases h
                · split at h
                  · cases h
                  · rename_i r3 h3
                    have x2 := emit_ext s1 (.sleep (F64.mul (F64.div 60 bpm1) (F64.div 4 (maxLen (pl1.map (·.length)))))) (x1.wf hw)
                    have x3 := settle_sync bars (maxLen (pl1.map (·.length))) pl1 _ cur [] _ h3 (x2.wf (x1.wf hw))
                    exact (x1.trans ⟨_, x2⟩).trans (x3.trans (ih _ _ _ _ _ r h (x3.wf (x2.wf (x1.wf hw)))))
              · cases h

theorem finalLoop_sync (fuel : Nat) : ∀ (i : Nat) (l : List Playing) (st st' : St),
    finalLoop fuel i l st = .ok st' → WF st → Sync st st' := by
  induction fuel with
  | zero => intro i l st st' h _; simp only [finalLoop, pure, Except.pure, Except.ok.injEq] at h; subst h; exact Sync.refl _
  | succ f ih =>
    intro i l st st' h hw
    simp only [finalLoop, bind, Except.bind] at h
    split at h
    · simp only [pure, Except.pure, Except.ok.injEq] at h; subst h; exact Sync.refl _
    · split at h
      · cases h
      · rename_i s1 h1
        have x1 := stopNC_sync st s1 _ h1 hw
        split at h
        · cases h
        · exact x1.trans (ih _ _ _ _ h (x1.wf hw))

/-- **observers, parallel playback**: whatever `play_Bars` does with the bars it is given — equal or unequal rhythms,
    re-triggers and all — every attached observer receives exactly the hook events, nobody else receives anything -/
theorem playBars_sync (st : St) (bars : List SBar) (chans : List Int) (bpm : Int) (r : St × Option Int)
    (h : playBars st bars chans bpm = .ok r) (hw : WF st) : Sync st r.1 := by
  unfold playBars at h
  split at h
  · cases h
  · split at h
    · cases h
    · rename_i b0 _ _
      have x0 : Sync st (notifyHigh st) := ⟨_, notifyHigh_ext st⟩
      simp only [bind, Except.bind] at h
      split at h
      · cases h
      · rename_i r1 h1
        obtain ⟨s1, ob, pl⟩ := r1
        have x1 := barsLoop_sync _ _ _ _ _ _ _ _ _ _ h1 (x0.wf hw)
        cases ob with
        | none => simp only [pure, Except.pure, Except.ok.injEq] at h; subst h; exact x0.trans x1
        | some b =>
          simp only at h
          split at h
          · cases h
          · rename_i s2 h2
            simp only [pure, Except.pure, Except.ok.injEq] at h; subst h
            exact (x0.trans x1).trans (finalLoop_sync _ _ _ _ _ h2 (x1.wf (x0.wf hw)))

theorem groupsLoop_sync (tracks : List (Instr × List SBar)) (chans : List Int) (l : List Nat) :
    ∀ (st : St) (bpm : Int) (r : St × Option Int), groupsLoop tracks chans l st bpm = .ok r → WF st → Sync st r.1 := by
  induction l with
  | nil => intro st bpm r h _; simp only [groupsLoop, pure, Except.pure, Except.ok.injEq] at h; subst h; exact Sync.refl _
  | cons i is ih =>
    intro st bpm r h hw
    simp only [groupsLoop, bind, Except.bind] at h
    split at h
    · cases h
    · split at h
      · cases h
      · rename_i r1 h1
        obtain ⟨s1, ob⟩ := r1
        have x1 := playBars_sync st _ chans bpm _ h1 hw
        cases ob with
        | none => simp only [pure, Except.pure, Except.ok.injEq] at h; subst h; exact x1
        | some b => exact x1.trans (ih _ _ r h (x1.wf hw))

/-- the instrument announcements of `play_Tracks`: track i on channel `chans[i]` with its program -/
def announce (chans : List Int) (x : Nat × Instr × List SBar) : SEv := .instr (chans[x.1]?.getD 0) (program x.2.1) 0

theorem announce_fold (chans : List Int) (l : List (Nat × Instr × List SBar)) : ∀ (st st' : St),
    l.foldlM (fun s (x : Nat × Instr × List SBar) =>
      match chans[x.1]? with
      | none => (.error .index : Except Err St)
      | some ch => pure (setInstrument s ch (program x.2.1) 0)) st = .ok st' → WF st → Ext st st' (l.map (announce chans)) := by
  induction l with
  | nil => intro st st' h _; simp only [List.foldlM_nil, pure, Except.pure, Except.ok.injEq] at h; subst h; exact Ext.refl _
  | cons x xs ih =>
    intro st st' h hw
    rw [List.foldlM_cons] at h
    cases hc : chans[x.1]? with
    | none => simp [hc, bind, Except.bind] at h
    | some ch =>
      simp only [hc, bind, Except.bind, pure, Except.pure] at h
      have x1 : Ext st (setInstrument st ch (program x.2.1) 0) [announce chans x] := by
        simpa [announce, hc, setInstrument] using emit_ext st (.instr ch (program x.2.1) 0) hw
      simpa using x1.trans (ih _ _ h (x1.wf hw))

/-- **play_Tracks first announces one instrument per track on its channel** (a General MIDI name's index, else the
    instrument's own number, else 1), then plays; observers see all of it -/
theorem playTracks_spec (st : St) (tracks : List (Instr × List SBar)) (chans : List Int) (bpm : Int) (r : St × Option Int)
    (h : playTracks st tracks chans bpm = .ok r) (hw : WF st) :
    ∃ rest, Ext st r.1 ((List.zip (List.range tracks.length) tracks).map (announce chans) ++ rest) := by
  unfold playTracks at h
  simp only [bind, Except.bind] at h
  split at h
  · cases h
  · rename_i s1 h1
    have x0 := notifyHigh_ext st
    have x1 := announce_fold chans _ _ _ h1 (x0.wf hw)
    cases tracks with
    | nil => simp at h
    | cons t0 ts =>
      simp only at h
      obtain ⟨rest, x2⟩ := groupsLoop_sync (t0 :: ts) chans _ _ _ _ h (x1.wf (x0.wf hw))
      exact ⟨rest, by simpa using (x0.trans x1).trans x2⟩

theorem playComposition_spec (st : St) (tracks : List (Instr × List SBar)) (chans : Option (List Int)) (bpm : Int)
    (r : St × Option Int) (h : playComposition st tracks chans bpm = .ok r) (hw : WF st) :
    ∃ rest, Ext st r.1 ((List.zip (List.range tracks.length) tracks).map (announce (compChans chans tracks.length)) ++ rest) := by
  unfold playComposition at h
  have x0 := notifyHigh_ext st
  obtain ⟨rest, x1⟩ := playTracks_spec _ tracks _ bpm r h (x0.wf hw)
  exact ⟨rest, by simpa using x0.trans x1⟩

example : program (.named "Violin".toList) = 40 ∧ program (.named "no such".toList) = 1 ∧ program (.nr 42) = 42 ∧ program .plain = 1 := by
  decide +kernel

/-! ### the parallel scheduler on unequal rhythms: a kernel-evaluated run -/

def c4 : Note := ⟨"C".toList, 4, 1, 64⟩
def e4 : Note := ⟨"E".toList, 4, 2, 64⟩
def halves : SBar := ⟨1, [⟨0, 2, some [c4], none⟩, ⟨1/2, 2, some [c4], none⟩]⟩
def quarters : SBar := ⟨1, [⟨0, 4, some [e4], none⟩, ⟨1/4, 4, some [e4], none⟩, ⟨1/2, 4, some [e4], none⟩, ⟨3/4, 4, some [e4], none⟩]⟩

/-- two half notes against four quarters: the half note is started again after one quarter while it is still sounding
    (known finding C18-parallel-scheduler; the same script on the implementation is `parallel:unequal` in the harness) -/
theorem parallel_counterexample :
    (playBars {} [halves, quarters] [1, 2] 120).toOption.map (fun r => (sound [] r.1.hooks, (r.1.hooks.filter (· == .play 60 1 64)).length)) =
      some (none, 4) := by decide +kernel

/-- the same two bars with equal rhythms are played correctly (balanced, one second per half note at 120 bpm) -/
example : (playBars {} [halves, halves] [1, 2] 120).toOption.map (fun r => (sound [] r.1.hooks, slept r.1.hooks, r.2)) =
    some (none, [1, 1], some 120) := by decide +kernel

end Mingus.Props.C18
