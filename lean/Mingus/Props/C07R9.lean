import Mingus.Props.C07Defs
/- GENERATED once by the snippet recorded in DESIGN.md (slice 9 of the recognise-all theorem): kernel evaluation of
   every rotation of every listed shorthand on all 21 roots. -/
namespace Mingus.Props.C07
open Mingus
def sliceKeys9 : List Str := [lit "9", lit "m9", lit "7#5", lit "M7+5", lit "M7+", lit "m7+", lit "7+", lit "dom7", lit "M", lit "sus"]
theorem slice9 : ∀ k ∈ sliceKeys9, keyOK k = true := by decide +kernel
end Mingus.Props.C07
