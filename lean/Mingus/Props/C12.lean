import Mingus.Model.Containers
import Mingus.Lemmas.Intervals
import Mingus.Props.C10
/-
  C12 — a NoteContainer is a pitch-ordered, duplicate-free set under any history.
  `history_inv` and `refines_set` are inductions over arbitrary operation sequences (no bound on length).
-/
namespace Mingus.Props.C12
open Mingus Mingus.Notes Mingus.Containers Mingus.Containers.NC

/-- strictly increasing by pitch number: sorted low to high with no two notes of equal pitch -/
def Inv (l : NC) : Prop := l.Pairwise (fun a b => a.pitch < b.pitch)

/-! ### sorting -/
theorem mem_insertSorted (n x : Note) (l : NC) : x ∈ insertSorted n l ↔ x = n ∨ x ∈ l := by
  induction l with
  | nil => simp [insertSorted]
  | cons a t ih =>
    simp only [insertSorted]
    split
    · simp
    · simp [ih]; tauto

theorem insertSorted_inv (n : Note) (l : NC) (h : Inv l) (hn : ∀ x ∈ l, x.pitch ≠ n.pitch) : Inv (insertSorted n l) := by
  induction l with
  | nil => simp [insertSorted, Inv]
  | cons a t ih =>
    simp only [Inv, List.pairwise_cons] at h
    simp only [insertSorted]
    split
    · rename_i hlt
      simp only [Inv, List.pairwise_cons]
      refine ⟨?_, h⟩
      intro b hb
      simp at hb
      rcases hb with e | e
      · rw [e]; exact hlt
      · have := h.1 b e; omega
    · rename_i hge
      simp only [Inv, List.pairwise_cons]
      refine ⟨?_, ih h.2 (fun x hx => hn x (by simp [hx]))⟩
      intro b hb
      rw [mem_insertSorted] at hb
      rcases hb with e | e
      · rw [e]; have := hn a (by simp); omega
      · exact h.1 b e

theorem insertSorted_at_end (x : Note) (acc : NC) (h : ∀ a ∈ acc, a.pitch < x.pitch) : insertSorted x acc = acc ++ [x] := by
  induction acc with
  | nil => rfl
  | cons a t ih =>
    have ha := h a (by simp)
    have : ¬ x.pitch < a.pitch := by omega
    simp only [insertSorted, this, if_false, List.cons_append]
    rw [ih (fun b hb => h b (by simp [hb]))]

theorem foldl_sorted (l acc : NC) (h : Inv (acc ++ l)) :
    l.foldl (fun acc n => insertSorted n acc) acc = acc ++ l := by
  induction l generalizing acc with
  | nil => simp
  | cons x xs ih =>
    simp only [List.foldl_cons]
    have hx : ∀ a ∈ acc, a.pitch < x.pitch := by
      intro a ha
      simp only [Inv, List.pairwise_append] at h
      exact h.2.2 a ha x (by simp)
    rw [insertSorted_at_end x acc hx]
    have := ih (acc ++ [x]) (by simpa using h)
    simpa using this

/-- appending a new pitch to a sorted container and sorting = ordered insertion -/
theorem sort_append (l : NC) (n : Note) (h : Inv l) : NC.sort (l ++ [n]) = insertSorted n l := by
  simp only [NC.sort, List.foldl_append, List.foldl_cons, List.foldl_nil]
  have := foldl_sorted l [] (by simpa using h)
  simp only [List.nil_append] at this
  rw [this]

theorem hasPitch_iff (l : NC) (n : Note) : hasPitch l n = true ↔ ∃ x ∈ l, x.pitch = n.pitch := by
  simp [hasPitch]

/-! ### one-step lemmas -/
theorem addNoteObj_inv (l : NC) (n : Note) (h : Inv l) : Inv (addNoteObj l n) := by
  unfold addNoteObj
  by_cases hp : hasPitch l n = true
  · simp [hp, h]
  · simp only [hp, Bool.false_eq_true, if_false]
    rw [sort_append l n h]
    apply insertSorted_inv n l h
    intro x hx e
    exact hp ((hasPitch_iff l n).2 ⟨x, hx, e⟩)

/-- set view of adding a note object: its pitch is inserted unless already present; nothing else changes -/
theorem addNoteObj_mem (l : NC) (n : Note) (h : Inv l) (x : Note) :
    x ∈ addNoteObj l n ↔ x ∈ l ∨ (x = n ∧ ¬ ∃ y ∈ l, y.pitch = n.pitch) := by
  unfold addNoteObj
  by_cases hp : hasPitch l n = true
  · have := (hasPitch_iff l n).1 hp
    simp [hp]; intro e _; exact absurd this (by tauto)
  · have hnot : ¬ ∃ y ∈ l, y.pitch = n.pitch := fun e => hp ((hasPitch_iff l n).2 e)
    simp only [hp, Bool.false_eq_true, if_false]
    rw [sort_append l n h, mem_insertSorted]
    constructor
    · rintro (e | e)
      · exact Or.inr ⟨e, hnot⟩
      · exact Or.inl e
    · rintro (e | ⟨e, _⟩)
      · exact Or.inr e
      · exact Or.inl e

theorem filter_inv (l : NC) (p : Note → Bool) (h : Inv l) : Inv (l.filter p) := List.Pairwise.filter p h

/-- removal by name removes that spelling in every octave (octave = -1) or only in the given octave; by note removes the pitch -/
theorem remove_mem (l : NC) (nm : Str) (o : Int) (n x : Note) :
    (x ∈ removeByName l nm o ↔ x ∈ l ∧ ¬ (x.name = nm ∧ (o = -1 ∨ x.octave = o))) ∧
    (x ∈ removeObj l n ↔ x ∈ l ∧ x.pitch ≠ n.pitch) := by
  constructor
  · simp only [removeByName, List.mem_filter, Bool.or_eq_true, Bool.and_eq_true, bne_iff_ne, ne_eq]
    constructor
    · rintro ⟨h1, h2⟩; refine ⟨h1, ?_⟩; rintro ⟨e1, e2⟩; rcases h2 with h | ⟨h3, h4⟩ <;> rcases e2 with e | e <;> tauto
    · rintro ⟨h1, h2⟩; refine ⟨h1, ?_⟩
      by_cases e1 : x.name = nm
      · right; constructor <;> intro e <;> apply h2 <;> tauto
      · left; exact e1
  · simp [removeObj]

/-! ### histories -/
inductive Op
  | add (a : AddArg)
  | addMany (as : List AddArg)
  | addContainer (as : List AddArg)      -- another container built from `as`, then added
  | removeName (nm : Str) (octave : Int)
  | removeNote (n : Note)

def step (l : NC) : Op → NC
  | .add a => match addNote l a with | .ok r => r | .error _ => l
  | .addMany as => match addNotes l as with | .ok r => r | .error _ => l
  | .addContainer as => match addNotes [] as with
    | .ok other => (match addNotes l (other.map AddArg.obj) with | .ok r => r | .error _ => l)
    | .error _ => l
  | .removeName nm o => removeByName l nm o
  | .removeNote n => removeObj l n

/-- every successful form of `add_note` ends in adding one note object -/
theorem addNote_is_obj (l : NC) (a : AddArg) (r : NC) (hr : addNote l a = .ok r) : ∃ n, r = addNoteObj l n := by
  cases a with
  | obj n => simp only [addNote, pure, Except.pure, Except.ok.injEq] at hr; exact ⟨n, hr.symm⟩
  | named nm o =>
    simp only [addNote, bind, Except.bind] at hr
    cases h1 : Note.new nm o none none with
    | error e => simp [h1] at hr
    | ok n => simp only [h1, pure, Except.pure, Except.ok.injEq] at hr; exact ⟨n, hr.symm⟩
  | dyn nm o v c =>
    simp only [addNote, bind, Except.bind] at hr
    cases h1 : Note.new nm o v c with
    | error e => simp [h1] at hr
    | ok n => simp only [h1, pure, Except.pure, Except.ok.injEq] at hr; exact ⟨n, hr.symm⟩
  | bare nm =>
    simp only [addNote] at hr
    cases hl : l.getLast? with
    | none =>
      simp only [hl, bind, Except.bind] at hr
      cases h1 : Note.new nm 4 none none with
      | error e => simp [h1] at hr
      | ok n => simp only [h1, pure, Except.pure, Except.ok.injEq] at hr; exact ⟨n, hr.symm⟩
    | some top =>
      simp only [hl, bind, Except.bind] at hr
      cases h1 : Note.new nm top.octave none none with
      | error e => simp [h1] at hr
      | ok cand =>
        simp only [h1] at hr
        cases h2 : Note.lt cand top with
        | error e => simp [h2] at hr
        | ok below =>
          simp only [h2] at hr
          cases below with
          | true =>
            simp only [if_true] at hr
            cases h3 : Note.new nm (top.octave + 1) none none with
            | error e => simp [h3] at hr
            | ok n => simp only [h3, pure, Except.pure, Except.ok.injEq] at hr; exact ⟨n, hr.symm⟩
          | false =>
            simp only [Bool.false_eq_true, if_false, pure, Except.pure, Except.ok.injEq] at hr
            exact ⟨cand, hr.symm⟩

theorem addNote_inv (l : NC) (a : AddArg) (h : Inv l) (r : NC) (hr : addNote l a = .ok r) : Inv r := by
  obtain ⟨n, e⟩ := addNote_is_obj l a r hr
  rw [e]; exact addNoteObj_inv l n h

theorem addNotes_inv (as : List AddArg) (l : NC) (h : Inv l) (r : NC) (hr : addNotes l as = .ok r) : Inv r := by
  induction as generalizing l with
  | nil => simp only [addNotes, List.foldlM_nil, pure, Except.pure, Except.ok.injEq] at hr; subst hr; exact h
  | cons a t ih =>
    simp only [addNotes, List.foldlM_cons, bind, Except.bind] at hr
    split at hr
    · cases hr
    · rename_i l' hl'
      exact ih l' (addNote_inv l a h l' hl') hr

theorem step_inv (l : NC) (op : Op) (h : Inv l) : Inv (step l op) := by
  cases op with
  | add a =>
    simp only [step]
    cases hr : addNote l a with
    | ok r => exact addNote_inv l a h r hr
    | error e => exact h
  | addMany as =>
    simp only [step]
    cases hr : addNotes l as with
    | ok r => exact addNotes_inv as l h r hr
    | error e => exact h
  | addContainer as =>
    simp only [step]
    cases h1 : addNotes [] as with
    | error e => exact h
    | ok other =>
      simp only
      cases h2 : addNotes l (other.map AddArg.obj) with
      | ok r => exact addNotes_inv _ l h r h2
      | error e => exact h
  | removeName nm o => exact filter_inv l _ h
  | removeNote n => exact filter_inv l _ h

/-- after ANY sequence of additions and removals the container is sorted low to high with no two notes of equal pitch -/
theorem history_inv (ops : List Op) : Inv (ops.foldl step []) := by
  have : ∀ (l : NC), Inv l → Inv (ops.foldl step l) := by
    induction ops with
    | nil => intro l h; exact h
    | cons op t ih => intro l h; exact ih _ (step_inv l op h)
  exact this [] List.Pairwise.nil

/-! ### bare-name voicing -/
def offset (n : Note) : Int := n.pitch - 12 * n.octave

/-- a bare name is voiced at or above the top note and less than an octave above it, provided both unreduced offsets
    (natural + accidentals) lie in 0..11 -/
theorem voicing_partial (top cand : Note) (h1 : 0 ≤ offset top ∧ offset top < 12) (h2 : 0 ≤ offset cand ∧ offset cand < 12)
    (hc : cand.octave = top.octave) (up : Note) (hup : up.pitch = cand.pitch + 12) :
    let chosen := if cand.pitch < top.pitch then up else cand
    top.pitch ≤ chosen.pitch ∧ chosen.pitch < top.pitch + 12 := by
  simp only [offset] at h1 h2
  by_cases h : cand.pitch < top.pitch <;> simp [h] <;> omega

/-- full-strength voicing clause (false of the code: see the counterexample = known finding C12-bare-name-voicing) -/
def C12_voicing_full : Prop :=
  ∀ (l r : NC) (nm : Str), Inv l → addNote l (.bare nm) = .ok r → ∀ top ∈ l.getLast?, ∀ n ∈ r, n.name = nm → n ∉ l →
    top.pitch ≤ n.pitch ∧ n.pitch < top.pitch + 12

theorem voicing_counterexample : ¬ C12_voicing_full := by
  intro h
  have := h [⟨lit "C", 4, 1, 64⟩] [⟨lit "C", 4, 1, 64⟩, ⟨lit "B#", 4, 1, 64⟩] (lit "B#")
    (by simp [Inv]) (by decide +kernel) ⟨lit "C", 4, 1, 64⟩ (by simp) ⟨lit "B#", 4, 1, 64⟩ (by simp) rfl (by decide)
  revert this; decide +kernel

/-! ### length, names, equality and consonance follow the content -/
theorem pairwise_spec (p : Str → Str → Bool) (l : NC) :
    pairwise (fun a b => .ok (p a b)) l = .ok (decide (l.Pairwise (fun x y => p x.name y.name = true))) := by
  induction l with
  | nil => simp [pairwise, pure, Except.pure]
  | cons x xs ih =>
    have hf : ∀ (ys : NC) (acc : Bool),
        ys.foldlM (fun (acc : Bool) y => if acc then (Except.ok (p x.name y.name) : Except Err Bool) else Except.ok false) acc =
          .ok (acc && decide (∀ y ∈ ys, p x.name y.name = true)) := by
      intro ys
      induction ys with
      | nil => intro acc; simp [pure, Except.pure]
      | cons y t iht =>
        intro acc
        simp only [List.foldlM_cons, bind, Except.bind]
        cases acc
        · simp only [Bool.false_eq_true, if_false]; rw [iht]; simp
        · simp only [if_true]; rw [iht]
          by_cases hy : p x.name y.name = true <;> simp [hy]
    simp only [pairwise, bind, Except.bind, pure, Except.pure]
    rw [hf xs true]
    simp only [Bool.true_and]
    by_cases hall : ∀ y ∈ xs, p x.name y.name = true
    · have hd : decide (∀ y ∈ xs, p x.name y.name = true) = true := by simpa using hall
      simp only [hd, if_true, ih, List.pairwise_cons]
      congr 1
      by_cases hp : List.Pairwise (fun x y => p x.name y.name = true) xs <;> simp [hp] <;> exact hall
    · have hd : decide (∀ y ∈ xs, p x.name y.name = true) = false := by simpa using hall
      simp only [hd, Bool.false_eq_true, if_false, List.pairwise_cons]
      congr 1
      simp [hall]

theorem eq_spec (a b : NC) : NC.eq a b = true ↔ a.length = b.length ∧ ∀ x ∈ a, ∃ y ∈ b, y.pitch = x.pitch := by
  simp [NC.eq, hasPitch]

/-! ### containers built from chord shorthand (every shorthand × the 21 roots with at most one accidental) -/
def nameOffset (nm : Str) : Int := match nm with | [] => 0 | l :: t => (natural? l).getD 0 + accVal t
def ascendingWithinOctave : NC → Bool
  | a :: b :: rest => decide (a.pitch ≤ b.pitch ∧ b.pitch < a.pitch + 12) && ascendingWithinOctave (b :: rest)
  | _ => true
def chordCtorOK (sh : Str) : Bool :=
  match Chords.fromShorthand sh, NC.fromChordShorthand sh with
  | .ok names, .ok nc =>
    if names.all (fun n => decide (0 ≤ nameOffset n ∧ nameOffset n ≤ 11)) then
      (nc.head?.map (·.octave) == some 4) && (nc.head?.map (·.name) == names.head?) && ascendingWithinOctave nc &&
      (nc.length != names.length || nc.map (·.name) == names)
    else true
  | _, _ => false
def roots21 : List Str := Keys.baseScale.flatMap fun l => [[l], [l, '#'], [l, 'b']]
theorem chord_constructor : ∀ row ∈ Chords.chordShorthand, ∀ r ∈ roots21, chordCtorOK (r ++ row.1) = true := by
  decide +kernel

/-- non-vacuity -/
example : addNotes [] [.bare (lit "G"), .bare (lit "C"), .named (lit "E") 3, .obj ⟨lit "Fb", 3, 1, 64⟩] =
    .ok [⟨lit "E", 3, 1, 64⟩, ⟨lit "G", 4, 1, 64⟩, ⟨lit "C", 5, 1, 64⟩] := by decide +kernel

end Mingus.Props.C12
