import Mingus.Props.C13
import Mingus.Lemmas.Float
/-
  C13 — on power-of-two values the implementation's FLOAT bar IS the exact bar, for every history.

  `round_exact` (Lemmas/Float.lean): every `m·2^k` with `|m| < 2^53` is a double.  Hence, in a bar whose length is a
  positive multiple of `2^-K` not above 1024 (`K ≤ 40`; every meter `count/2^u` one meets), under ANY sequence of
  placements of values `2^j` (`j ≤ K`: whole … 2^40-th notes) and removals, every double operation the bar performs
  (`1/value`, `current + step`, `current - step`) is exact, the accept/refuse decisions are those of the exact bar, and the
  float bar's state (current beat, entry starts and values, contents) equals the exact bar's: `float_refines_exact`.
  The recorded finding C13-float-exact-fill therefore needs a value that is not a power of two (it uses quintuplets).
-/
namespace Mingus.Props.C13
open Mingus Mingus.Containers

/-- the float bar seen as an exact bar -/
def absBar (b : Bar) : XBar := ⟨b.length, b.current, b.entries.map fun e => ⟨e.start, e.value, e.content⟩⟩

inductive DOp
  | place (content : Option NC) (v : Rat)
  | removeLast

/-- the float bar's step (a removal from an empty bar raises IndexError and leaves the bar as it is) -/
def fstep (b : Bar) : DOp → Bar
  | .place c v => (b.place c v).2
  | .removeLast => match b.removeLast with | .ok b' => b' | .error _ => b

def toX : DOp → XOp
  | .place c v => .place c v
  | .removeLast => .removeLast

/-- `v = 2^j` with `j ≤ K` -/
def IsP2 (K : Nat) (v : Rat) : Prop := ∃ j : Nat, j ≤ K ∧ v = ((2 ^ j : Nat) : Rat)

/-- `x = m·2^-K` for a natural `m` -/
def Grid (K : Nat) (x : Rat) : Prop := ∃ m : Nat, x = (m : Rat) * F64.pow2 (-(K : Int))

theorem pow2_neg_mul (K : Nat) : F64.pow2 (-(K : Int)) * ((2 ^ K : Nat) : Rat) = 1 := by
  rw [← F64.pow2_natCast, ← F64.pow2_add]
  have : (-(K : Int) + (K : Int)) = 0 := by omega
  rw [this]; rfl

/-- the length of a power-of-two value is on the grid: `1/2^j = 2^(K-j)·2^-K` -/
theorem step_grid (K : Nat) (v : Rat) (h : IsP2 K v) :
    ∃ j : Nat, j ≤ K ∧ 1 / v = ((2 ^ (K - j) : Nat) : Rat) * F64.pow2 (-(K : Int)) ∧ 0 < 1 / v ∧ 1 / v ≤ 1 := by
  obtain ⟨j, hj, rfl⟩ := h
  have hpos : (0 : Rat) < ((2 ^ j : Nat) : Rat) := by positivity
  refine ⟨j, hj, ?_, by positivity, ?_⟩
  · have hK := pow2_neg_mul K
    have hsplit : ((2 ^ K : Nat) : Rat) = ((2 ^ (K - j) : Nat) : Rat) * ((2 ^ j : Nat) : Rat) := by
      have : 2 ^ K = 2 ^ (K - j) * 2 ^ j := by rw [← pow_add]; congr 1; omega
      exact_mod_cast this
    rw [hsplit] at hK
    field_simp
    linarith [hK]
  · rw [div_le_one hpos]
    have : 1 ≤ 2 ^ j := Nat.one_le_two_pow
    exact_mod_cast this

theorem grid_le_bound (K : Nat) (m : Nat) (B : Nat) (h : (m : Rat) * F64.pow2 (-(K : Int)) ≤ B) : m ≤ B * 2 ^ K := by
  have hK := pow2_neg_mul K
  have hp : (0 : Rat) < ((2 ^ K : Nat) : Rat) := by positivity
  have : (m : Rat) ≤ (B : Rat) * ((2 ^ K : Nat) : Rat) := by
    calc (m : Rat) = (m : Rat) * (F64.pow2 (-(K : Int)) * ((2 ^ K : Nat) : Rat)) := by rw [hK]; ring
      _ = ((m : Rat) * F64.pow2 (-(K : Int))) * ((2 ^ K : Nat) : Rat) := by ring
      _ ≤ (B : Rat) * ((2 ^ K : Nat) : Rat) := mul_le_mul_of_nonneg_right h hp.le
  exact_mod_cast this

/-- `1/v`, `x + 1/v` and `x - 1/v` are computed exactly in double arithmetic when `x ≤ 1024` is on the grid, `K ≤ 40` -/
theorem ops_exact (K : Nat) (hK : K ≤ 40) (x v : Rat) (hx : Grid K x) (hb : x ≤ 1024) (hv : IsP2 K v) :
    F64.div 1 v = 1 / v ∧ F64.add x (1 / v) = x + 1 / v ∧ F64.sub x (1 / v) = x - 1 / v := by
  obtain ⟨m, rfl⟩ := hx
  obtain ⟨j, hj, hstep, _, _⟩ := step_grid K v hv
  have hm : m ≤ 1024 * 2 ^ K := grid_le_bound K m 1024 (by exact_mod_cast hb)
  have h2K : 2 ^ K ≤ 2 ^ 40 := Nat.pow_le_pow_right (by norm_num) hK
  have h2j : 2 ^ (K - j) ≤ 2 ^ 40 := Nat.pow_le_pow_right (by norm_num) (by omega)
  generalize 2 ^ (K - j) = g at hstep h2j
  generalize 2 ^ K = c at hm h2K
  refine ⟨?_, ?_, ?_⟩
  · unfold F64.div
    rw [hstep]
    have := F64.round_exact ((g : Nat) : Int) (-(K : Int)) (by rw [Int.natAbs_natCast]; omega)
    rw [Int.cast_natCast] at this
    exact this
  · unfold F64.add
    rw [hstep]
    have e : (m : Rat) * F64.pow2 (-(K : Int)) + (g : Rat) * F64.pow2 (-(K : Int)) =
        (((m + g : Nat) : Int) : Rat) * F64.pow2 (-(K : Int)) := by push_cast; ring
    rw [e]
    exact F64.round_exact _ _ (by rw [Int.natAbs_natCast]; omega)
  · unfold F64.sub
    rw [hstep]
    have e : (m : Rat) * F64.pow2 (-(K : Int)) - (g : Rat) * F64.pow2 (-(K : Int)) =
        ((((m : Int) - (g : Int)) : Int) : Rat) * F64.pow2 (-(K : Int)) := by push_cast; ring
    rw [e]
    exact F64.round_exact _ _ (by omega)

/-- what the induction carries -/
structure Good (K : Nat) (L : Rat) (b : Bar) : Prop where
  len : b.length = L
  inv : Inv (absBar b)
  vals : ∀ e ∈ b.entries, IsP2 K e.value
  grid : Grid K b.current
  le : b.current ≤ L

theorem total_nonneg_p2 (K : Nat) (es : List XEntry) (h : ∀ e ∈ es, IsP2 K e.value) : 0 ≤ total es := by
  induction es with
  | nil => simp [total]
  | cons e es ih =>
    obtain ⟨_, _, _, hp, _⟩ := step_grid K e.value (h e (by simp))
    have := ih (fun x hx => h x (by simp [hx]))
    simp only [total, List.map_cons, List.sum_cons] at this ⊢
    linarith

theorem grid_add (K : Nat) (x : Rat) (v : Rat) (hx : Grid K x) (hv : IsP2 K v) : Grid K (x + 1 / v) := by
  obtain ⟨m, rfl⟩ := hx
  obtain ⟨j, _, hstep, _, _⟩ := step_grid K v hv
  exact ⟨m + 2 ^ (K - j), by rw [hstep]; push_cast; ring⟩

theorem grid_sub (K : Nat) (x : Rat) (v : Rat) (hx : Grid K x) (hv : IsP2 K v) (hge : 1 / v ≤ x) : Grid K (x - 1 / v) := by
  obtain ⟨m, rfl⟩ := hx
  obtain ⟨j, _, hstep, _, _⟩ := step_grid K v hv
  have hK := pow2_neg_mul K
  have hp : (0 : Rat) < F64.pow2 (-(K : Int)) := F64.pow2_pos _
  have hle : 2 ^ (K - j) ≤ m := by
    rw [hstep] at hge
    have := le_of_mul_le_mul_right hge hp
    exact_mod_cast this
  refine ⟨m - 2 ^ (K - j), ?_⟩
  rw [hstep, Nat.cast_sub hle]; ring

/-- **one step**: the float bar does what the exact bar does, and stays good -/
theorem fstep_refines (K : Nat) (hK : K ≤ 40) (L : Rat) (hL0 : L ≠ 0) (hL : L ≤ 1024) (b : Bar) (hg : Good K L b) (op : DOp)
    (hop : ∀ c v, op = .place c v → IsP2 K v) :
    absBar (fstep b op) = xstep (absBar b) (toX op) ∧ Good K L (fstep b op) := by
  have hcur : b.current ≤ 1024 := le_trans hg.le hL
  cases op with
  | place c v =>
    have hv := hop c v rfl
    obtain ⟨e1, e2, _⟩ := ops_exact K hK b.current v hg.grid hcur hv
    have hlen0 : ¬ (b.length = 0) := by rw [hg.len]; exact hL0
    by_cases hacc : b.current + 1 / v ≤ b.length
    · have hx : accepts (absBar b) v := Or.inl hacc
      have hf : (b.place c v) = (true, { b with entries := b.entries ++ [⟨b.current, v, c⟩], current := b.current + 1 / v }) := by
        simp only [Bar.place, e1, e2, hacc, true_or, if_true]
      refine ⟨?_, ?_⟩
      · simp only [fstep, hf, toX, xstep, hx, if_true]
        simp [absBar]
      · have hstep := step_inv (absBar b) (.place c v) hg.inv
        simp only [xstep, hx, if_true] at hstep
        refine ⟨by simp only [fstep, hf]; exact hg.len, ?_, ?_, ?_, ?_⟩
        · simpa only [fstep, hf, absBar, List.map_append, List.map_cons, List.map_nil] using hstep
        · intro e he
          simp only [fstep, hf, List.mem_append, List.mem_singleton] at he
          rcases he with he | rfl
          · exact hg.vals e he
          · exact hv
        · simp only [fstep, hf]; exact grid_add K _ _ hg.grid hv
        · simp only [fstep, hf]; rw [← hg.len]; exact hacc
    · have hx : ¬ accepts (absBar b) v := by
        intro h; rcases h with h | h
        · exact hacc h
        · exact hlen0 h
      have hf : (b.place c v) = (false, b) := by
        simp only [Bar.place, e1, e2, hacc, hlen0, or_self, if_false]
      exact ⟨by simp only [fstep, hf, toX, xstep, hx, if_false], by simp only [fstep, hf]; exact hg⟩
  | removeLast =>
    cases hlast : b.entries.getLast? with
    | none =>
      have hx : (absBar b).entries.getLast? = none := by simp [absBar, List.getLast?_map, hlast]
      have hf : b.removeLast = .error .index := by simp [Bar.removeLast, hlast, throw, throwThe, MonadExceptOf.throw]
      exact ⟨by simp only [fstep, hf, toX, xstep, hx], by simp only [fstep, hf]; exact hg⟩
    | some e =>
      have hmem : e ∈ b.entries := List.mem_of_getLast? hlast
      have hv := hg.vals e hmem
      obtain ⟨_, _, e3⟩ := ops_exact K hK b.current e.value hg.grid hcur hv
      obtain ⟨e1, _, _⟩ := ops_exact K hK b.current e.value hg.grid hcur hv
      have hx : (absBar b).entries.getLast? = some ⟨e.start, e.value, e.content⟩ := by
        simp [absBar, List.getLast?_map, hlast]
      have hf : b.removeLast = .ok { b with current := b.current - 1 / e.value, entries := b.entries.dropLast } := by
        simp only [Bar.removeLast, hlast, e1, e3, pure, Except.pure]
      have hstep := step_inv (absBar b) .removeLast hg.inv
      simp only [xstep, hx] at hstep
      -- the removed length is part of the total
      have hsplit : b.entries = b.entries.dropLast ++ [e] := by
        have := List.dropLast_append_getLast? e hlast
        exact this.symm
      have hge : 1 / e.value ≤ b.current := by
        have hc : b.current = total (absBar b).entries := hg.inv.2
        have : (absBar b).entries = (b.entries.dropLast.map fun e => (⟨e.start, e.value, e.content⟩ : XEntry)) ++ [⟨e.start, e.value, e.content⟩] := by
          simp only [absBar]; conv => lhs; rw [hsplit]
          simp
        rw [this, total_append] at hc
        have hnn := total_nonneg_p2 K (b.entries.dropLast.map fun e => (⟨e.start, e.value, e.content⟩ : XEntry)) (by
          intro x hxm
          obtain ⟨y, hy, rfl⟩ := List.mem_map.1 hxm
          exact hg.vals y (List.mem_of_mem_dropLast hy))
        simp only [total, List.map_cons, List.map_nil, List.sum_cons, List.sum_nil, add_zero] at hc hnn
        linarith
      refine ⟨?_, ?_⟩
      · simp only [fstep, hf, toX, xstep, hx]
        simp [absBar, List.map_dropLast]
      · refine ⟨by simp only [fstep, hf]; exact hg.len, ?_, ?_, ?_, ?_⟩
        · simpa only [fstep, hf, absBar, List.map_dropLast] using hstep
        · intro x hxm
          simp only [fstep, hf] at hxm
          exact hg.vals x (List.mem_of_mem_dropLast hxm)
        · simp only [fstep, hf]; exact grid_sub K _ _ hg.grid hv hge
        · simp only [fstep, hf]
          obtain ⟨_, _, _, hp, _⟩ := step_grid K e.value hv
          linarith [hg.le]

/-- **every history**: the float bar equals the exact bar after any sequence of power-of-two placements and removals -/
theorem float_refines_exact (K : Nat) (hK : K ≤ 40) (L : Rat) (hL0 : L ≠ 0) (hL : L ≤ 1024) (ops : List DOp)
    (hops : ∀ op ∈ ops, ∀ c v, op = .place c v → IsP2 K v) :
    ∀ (b : Bar), Good K L b →
      absBar (ops.foldl fstep b) = (ops.map toX).foldl xstep (absBar b) ∧ Good K L (ops.foldl fstep b) := by
  induction ops with
  | nil => intro b hg; exact ⟨rfl, hg⟩
  | cons op ops ih =>
    intro b hg
    obtain ⟨h1, h2⟩ := fstep_refines K hK L hL0 hL b hg op (hops op (by simp))
    obtain ⟨i1, i2⟩ := ih (fun o ho => hops o (by simp [ho])) (fstep b op) h2
    simp only [List.foldl_cons, List.map_cons]
    rw [← h1]
    exact ⟨i1, i2⟩

/-- a fresh bar in a power-of-two meter is good: its length `count·(1/unit)` is computed exactly -/
theorem new_good (K : Nat) (hK : K ≤ 40) (key : Str) (count : Nat) (unit : Rat) (hu : IsP2 K unit) (hc : 0 < count)
    (hcu : (count : Rat) / unit ≤ 1024) (hcb : count ≤ 2 ^ 12) (b : Bar) (h : Bar.new key (count : Int) unit = .ok b) :
    Good K ((count : Rat) / unit) b ∧ (count : Rat) / unit ≠ 0 ∧ b.current = 0 ∧ b.entries = [] := by
  obtain ⟨j, hj, hstep, hpos, _⟩ := step_grid K unit hu
  have h2j : 2 ^ (K - j) ≤ 2 ^ 40 := Nat.pow_le_pow_right (by norm_num) (by omega)
  have hdiv : F64.div 1 unit = 1 / unit := by
    unfold F64.div; rw [hstep]
    have := F64.round_exact ((2 ^ (K - j) : Nat) : Int) (-(K : Int)) (by simp; omega)
    simpa using this
  have hmul : F64.mul ((count : Int) : Rat) (1 / unit) = (count : Rat) / unit := by
    unfold F64.mul
    rw [hstep]
    have e : (((count : Int)) : Rat) * (((2 ^ (K - j) : Nat) : Rat) * F64.pow2 (-(K : Int))) =
        (((count * 2 ^ (K - j) : Nat) : Int) : Rat) * F64.pow2 (-(K : Int)) := by push_cast; ring
    rw [e, F64.round_exact _ _ (by
      simp only [Int.natAbs_natCast]
      calc count * 2 ^ (K - j) ≤ 2 ^ 12 * 2 ^ 40 := Nat.mul_le_mul hcb h2j
        _ < 2 ^ 53 := by norm_num)]
    rw [div_eq_mul_one_div, hstep]; push_cast; ring
  have hne : (count : Rat) / unit ≠ 0 := by
    have : (0 : Rat) < (count : Rat) / unit := by
      rw [div_eq_mul_one_div]; exact mul_pos (by exact_mod_cast hc) hpos
    exact this.ne'
  have hp2 : Bar.isPow2Rat unit = true := by
    obtain ⟨j', _, rfl⟩ := hu
    simp only [Bar.isPow2Rat, Rat.den_natCast, Rat.num_natCast, Int.toNat_natCast, Nat.log2_two_pow, beq_self_eq_true, Bool.and_true,
      Bool.true_and]
    exact decide_eq_true (by positivity)
  simp only [Bar.new, Bar.setMeter, hp2, if_true, bind, Except.bind, pure, Except.pure, hdiv, hmul] at h
  split at h
  · cases h
  · simp only [Except.ok.injEq] at h
    subst h
    refine ⟨⟨rfl, ?_, by simp, ⟨0, by simp⟩, ?_⟩, hne, rfl, rfl⟩
    · simp [Inv, absBar, StartsOK, total]
    · rw [div_eq_mul_one_div]; exact (mul_pos (by exact_mod_cast hc) hpos).le

/-- **headline**: a bar created in a meter `count / 2^u` (count ≤ 4096, length ≤ 1024), then ANY history of placements of
    power-of-two values (down to 2^40-th notes) and removals: the float bar's state is the exact bar's state -/
theorem bar_history_exact (K : Nat) (hK : K ≤ 40) (key : Str) (count : Nat) (unit : Rat) (hu : IsP2 K unit) (hc : 0 < count)
    (hcu : (count : Rat) / unit ≤ 1024) (hcb : count ≤ 2 ^ 12) (b0 : Bar) (h : Bar.new key (count : Int) unit = .ok b0)
    (ops : List DOp) (hops : ∀ op ∈ ops, ∀ c v, op = .place c v → IsP2 K v) :
    absBar (ops.foldl fstep b0) = (ops.map toX).foldl xstep { length := (count : Rat) / unit } := by
  obtain ⟨hg, hne, hc0, he0⟩ := new_good K hK key count unit hu hc hcu hcb b0 h
  have := (float_refines_exact K hK _ hne hcu ops hops b0 hg).1
  rw [this]
  congr 1
  simp only [absBar, hg.len, hc0, he0, List.map_nil]

/-! ### the hypotheses are met: 4/4, sixteenths and a half, a removal -/
example : IsP2 7 4 ∧ IsP2 7 16 ∧ IsP2 7 2 := ⟨⟨2, by omega, by norm_num⟩, ⟨4, by omega, by norm_num⟩, ⟨1, by omega, by norm_num⟩⟩
example : (Bar.new (lit "C") 4 4).toOption.map (fun b => ([DOp.place none 16, .place none 2, .removeLast, .place none 4].foldl fstep b).current) =
    some (5 / 16) := by decide +kernel

end Mingus.Props.C13
