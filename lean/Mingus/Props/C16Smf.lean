import Mingus.Props.C16Vlq
/-
  C16 — an independent Standard MIDI File reader (the specification, not mingus's reader) and the theorem that
  every file the model writes is read back by it as exactly the event lists that were written.
-/
namespace Mingus.Props.C16
open Mingus Mingus.Midi

/-- well-formed events: status nibble and data bytes in range -/
def WfEv : Ev → Prop
  | .chan2 k c a b => 8 ≤ k ∧ k ≤ 14 ∧ k ≠ 12 ∧ k ≠ 13 ∧ c < 16 ∧ a < 128 ∧ b < 128
  | .chan1 k c a => (k = 12 ∨ k = 13) ∧ c < 16 ∧ a < 128
  | .metaE t _ => t < 128

/-- one event, no running status -/
def parseEv : Bytes → Option (Ev × Bytes)
  | [] => none
  | st :: rest =>
    if st = 255 then
      match rest with
      | [] => none
      | t :: rest =>
        if t < 128 then
          match stdDec 0 rest with
          | none => none
          | some (len, r) => if len ≤ r.length then some (.metaE t (r.take len), r.drop len) else none
        else none
    else if 128 ≤ st ∧ st < 240 then
      if st / 16 = 12 ∨ st / 16 = 13 then
        match rest with
        | a :: r => if a < 128 then some (.chan1 (st / 16) (st % 16) a, r) else none
        | _ => none
      else
        match rest with
        | a :: b :: r => if a < 128 ∧ b < 128 then some (.chan2 (st / 16) (st % 16) a b, r) else none
        | _ => none
    else none

/-- delta-time/event pairs until the bytes run out -/
def parseEvents : Nat → Bytes → Option (List TEv)
  | _, [] => some []
  | 0, _ :: _ => none
  | f + 1, b :: bs =>
    match stdDec 0 (b :: bs) with
    | none => none
    | some (d, r1) =>
      match parseEv r1 with
      | none => none
      | some (e, r2) =>
        match parseEvents f r2 with
        | none => none
        | some l => some (⟨d, e⟩ :: l)

theorem parseEv_bytes (e : Ev) (h : WfEv e) (tail : Bytes) : parseEv (e.bytes ++ tail) = some (e, tail) := by
  cases e with
  | chan2 k c a b =>
    obtain ⟨h1, h2, h3, h4, h5, h6, h7⟩ := h
    have hs : c + 16 * k ≠ 255 := by omega
    have hr : 128 ≤ c + 16 * k ∧ c + 16 * k < 240 := by omega
    have hk : (c + 16 * k) / 16 = k := by omega
    have hc : (c + 16 * k) % 16 = c := by omega
    simp [Ev.bytes, parseEv, hs, hr, hk, hc, h3, h4, h6, h7]
  | chan1 k c a =>
    obtain ⟨h1, h2, h3⟩ := h
    have hs : c + 16 * k ≠ 255 := by omega
    have hr : 128 ≤ c + 16 * k ∧ c + 16 * k < 240 := by omega
    have hk : (c + 16 * k) / 16 = k := by omega
    have hc : (c + 16 * k) % 16 = c := by omega
    simp [Ev.bytes, parseEv, hs, hr, hk, hc, h1, h3]
  | metaE t d =>
    have ht : t < 128 := h
    simp only [Ev.bytes, List.cons_append, List.nil_append, List.append_assoc, parseEv, if_true, ht]
    rw [dec_toVarbyte]
    simp

theorem tev_bytes_ne_nil (e : TEv) : e.bytes ≠ [] := by
  unfold TEv.bytes
  intro h
  exact toVarbyte_ne_nil e.delta (List.append_eq_nil_iff.1 h).1

/-- parsing the serialisation of well-formed events returns exactly those events (any number of them) -/
theorem parse_serialise (evs : List TEv) (h : ∀ e ∈ evs, WfEv e.ev) :
    ∀ f, evs.length ≤ f → parseEvents f (serialise evs) = some evs := by
  induction evs with
  | nil => intro f _; cases f <;> simp [serialise, parseEvents]
  | cons e es ih =>
    intro f hf
    cases f with
    | zero => simp at hf
    | succ f =>
      have hne := tev_bytes_ne_nil e
      have hs : serialise (e :: es) = toVarbyte e.delta ++ (e.ev.bytes ++ serialise es) := by
        simp [serialise, TEv.bytes]
      rw [hs]
      cases hb : toVarbyte e.delta ++ (e.ev.bytes ++ serialise es) with
      | nil =>
        exfalso
        exact toVarbyte_ne_nil e.delta (List.append_eq_nil_iff.1 hb).1
      | cons b bs =>
        simp only [parseEvents]
        rw [← hb, dec_toVarbyte]
        simp only
        rw [parseEv_bytes e.ev (h e (by simp))]
        simp only
        rw [ih (fun x hx => h x (by simp [hx])) f (by simpa using hf)]

theorem serialise_length_ge (evs : List TEv) : evs.length ≤ (serialise evs).length := by
  induction evs with
  | nil => simp [serialise]
  | cons e es ih =>
    have : 1 ≤ e.bytes.length := by
      have := tev_bytes_ne_nil e
      cases h : e.bytes with
      | nil => exact absurd h this
      | cons _ _ => simp
    simp only [serialise, List.flatMap_cons, List.length_append, List.length_cons] at *
    omega

/-! ### chunks and the file -/

def beVal (l : Bytes) : Nat := l.foldl (fun acc b => acc * 256 + b) 0

theorem beVal_be4 (n : Nat) (h : n < 2 ^ 32) : beVal (be 4 n) = n := by
  simp [be, beVal, List.range_succ_eq_map]; omega
theorem beVal_be2 (n : Nat) (h : n < 2 ^ 16) : beVal (be 2 n) = n := by
  simp [be, beVal, List.range_succ_eq_map]; omega
theorem be_length (k n : Nat) : (be k n).length = k := by simp [be]

def eot : TEv := ⟨0, .metaE 47 []⟩

/-- a track chunk: tag, length, that many bytes of events, the last of which is end-of-track (and no other) -/
def parseChunk : Bytes → Option (List TEv × Bytes)
  | 77 :: 84 :: 114 :: 107 :: a :: b :: c :: d :: rest =>
    let len := beVal [a, b, c, d]
    if len ≤ rest.length then
      match parseEvents len (rest.take len) with
      | none => none
      | some evs =>
        match evs.getLast? with
        | some ⟨_, .metaE 47 []⟩ =>
          if evs.dropLast.all (fun e => match e.ev with | .metaE 47 _ => false | _ => true) then some (evs.dropLast, rest.drop len) else none
        | _ => none
    else none
  | _ => none

def parseChunks : Nat → Bytes → Option (List (List TEv))
  | _, [] => some []
  | 0, _ :: _ => none
  | f + 1, b :: bs =>
    match parseChunk (b :: bs) with
    | none => none
    | some (t, rest) =>
      match parseChunks f rest with
      | none => none
      | some ts => some (t :: ts)

structure Smf where
  format : Nat
  ntracks : Nat
  division : Nat
  tracks : List (List TEv)
  deriving DecidableEq, Repr

/-- header of length 6, then track chunks to the end of the file; the declared count must match -/
def parseSmf : Bytes → Option Smf
  | 77 :: 84 :: 104 :: 100 :: 0 :: 0 :: 0 :: 6 :: f1 :: f2 :: n1 :: n2 :: d1 :: d2 :: rest =>
    match parseChunks rest.length rest with
    | none => none
    | some ts => if beVal [n1, n2] = ts.length then some ⟨beVal [f1, f2], beVal [n1, n2], beVal [d1, d2], ts⟩ else none
  | _ => none

/-- a track as the model holds it: its events are well formed, none is an end-of-track, and it fits a 32-bit length -/
def WfTrack (t : MT) : Prop :=
  (∀ e ∈ t.evs, WfEv e.ev ∧ ∀ d, e.ev ≠ .metaE 47 d) ∧ (serialise t.evs).length + 4 < 2 ^ 32

theorem serialise_append (a b : List TEv) : serialise (a ++ b) = serialise a ++ serialise b := by
  simp [serialise]

theorem chunk_parse (t : MT) (h : WfTrack t) (tail : Bytes) : parseChunk (t.chunk ++ tail) = some (t.evs, tail) := by
  obtain ⟨hw, hl⟩ := h
  have hbody : serialise t.evs ++ [0, 255, 47, 0] = serialise (t.evs ++ [eot]) := by
    have z : toVarbyte 0 = [0] := by decide +kernel
    rw [serialise_append]; simp [serialise, eot, TEv.bytes, Ev.bytes, z]
  have hlen : (serialise (t.evs ++ [eot])).length = (serialise t.evs).length + 4 := by
    rw [← hbody]; simp
  have h4 : be 4 ((serialise t.evs).length + 4) =
      [((serialise t.evs).length + 4) / 256 ^ 3 % 256, ((serialise t.evs).length + 4) / 256 ^ 2 % 256,
       ((serialise t.evs).length + 4) / 256 ^ 1 % 256, ((serialise t.evs).length + 4) / 256 ^ 0 % 256] := by
    simp [be, List.range_succ_eq_map]
  have hval : beVal (be 4 ((serialise t.evs).length + 4)) = (serialise t.evs).length + 4 := beVal_be4 _ hl
  unfold MT.chunk
  simp only [List.append_assoc, List.cons_append, List.nil_append]
  rw [h4] at hval ⊢
  simp only [List.cons_append, List.nil_append, parseChunk]
  rw [hval]
  have e1 : serialise t.evs ++ (0 :: 255 :: 47 :: 0 :: tail) = serialise (t.evs ++ [eot]) ++ tail := by
    rw [← hbody]; simp
  rw [e1]
  have hle : (serialise t.evs).length + 4 ≤ (serialise (t.evs ++ [eot]) ++ tail).length := by
    rw [List.length_append, hlen]; omega
  rw [if_pos hle]
  rw [← hlen, List.take_left', List.drop_left']
  · rw [parse_serialise (t.evs ++ [eot])]
    · have hd : (t.evs ++ [eot]).dropLast = t.evs := List.dropLast_concat
      simp only [eot] at hd
      have hall : (t.evs.all fun e => match e.ev with | .metaE 47 _ => false | _ => true) = true := by
        rw [List.all_eq_true]
        intro e he
        have := (hw e he).2
        cases hev : e.ev with
        | chan2 _ _ _ _ => rfl
        | chan1 _ _ _ => rfl
        | metaE ty d =>
          by_cases h47 : ty = 47
          · subst h47; exact absurd hev (this d)
          · split
            · rename_i heq; cases heq; exact absurd rfl h47
            · rfl
      simp only [List.getLast?_append, List.getLast?_singleton, eot, Option.some_or, hd, hall, if_true]
    · intro e he
      rcases List.mem_append.1 he with h1 | h1
      · exact (hw e h1).1
      · simp only [List.mem_singleton] at h1; subst h1; simp [eot, WfEv]
    · exact serialise_length_ge _
  · rfl
  · rfl

theorem chunk_ne_nil (t : MT) : t.chunk ≠ [] := by simp [MT.chunk]

theorem chunks_parse (ts : List MT) (h : ∀ t ∈ ts, WfTrack t) :
    ∀ f, ts.length ≤ f → parseChunks f (ts.flatMap MT.chunk) = some (ts.map (·.evs)) := by
  induction ts with
  | nil => intro f _; cases f <;> simp [parseChunks]
  | cons t ts ih =>
    intro f hf
    cases f with
    | zero => simp at hf
    | succ f =>
      rw [List.flatMap_cons]
      cases hb : t.chunk ++ List.flatMap MT.chunk ts with
      | nil => exact absurd (List.append_eq_nil_iff.1 hb).1 (chunk_ne_nil t)
      | cons b bs =>
        simp only [parseChunks]
        rw [← hb, chunk_parse t (h t (by simp))]
        simp only
        rw [ih (fun x hx => h x (by simp [hx])) f (by simpa using hf)]
        simp

theorem chunks_length_ge (ts : List MT) : ts.length ≤ (ts.flatMap MT.chunk).length := by
  induction ts with
  | nil => simp
  | cons t ts ih =>
    have : 1 ≤ t.chunk.length := by simp [MT.chunk]
    simp only [List.flatMap_cons, List.length_append, List.length_cons] at *
    omega

/-- **Framing.** Every file the model writes parses under the independent reader: header of length 6, format 1,
    72 ticks per quarter, the declared number of tracks equal to the number of chunks, every chunk's length field
    matching its content, ending in the one end-of-track event — and the events read are exactly those written. -/
theorem file_parses (ts : List MT) (h : ∀ t ∈ ts, WfTrack t) (hn : ts.length < 2 ^ 16) :
    parseSmf (fileBytes ts) = some ⟨1, ts.length, 72, ts.map (·.evs)⟩ := by
  have h2 : be 2 ts.length = [ts.length / 256 ^ 1 % 256, ts.length / 256 ^ 0 % 256] := by
    simp [be, List.range_succ_eq_map]
  have hval := beVal_be2 ts.length hn
  unfold fileBytes
  rw [h2] at hval ⊢
  simp only [List.cons_append, List.nil_append, parseSmf]
  rw [chunks_parse ts h _ (chunks_length_ge ts)]
  simp only [List.length_map, hval, if_true]
  simp [beVal]

end Mingus.Props.C16
