import Mingus.Props.C20Decode
/-
  C20 — the header of a composition's page (`add_headers`): centring and word wrapping.

  `centre_shape` / `centre_length`: `str.center` as the model has it pads with blanks only, never cuts, gives a line of
  exactly max(width, len) characters and splits the padding evenly (the sides differ by at most one).
  `wrapWords_flatten`: the description's wrapping loop loses no word, invents none and keeps their order — for ANY word list
  and width.  `wrapWords_fit`: every line of two or more words is shorter than width - 10.
-/
namespace Mingus.Props.C20
open Mingus Mingus.Tab

theorem centre_shape (x : Str) (w : Int) :
    ∃ a b : Int, 0 ≤ a ∧ 0 ≤ b ∧ centre x w = rep ' ' a ++ x ++ rep ' ' b ∧
      a + b = max 0 (w - x.length) ∧ (a = b ∨ a = b + 1 ∨ b = a + 1) := by
  unfold centre
  by_cases h : (x.length : Int) ≥ w
  · refine ⟨0, 0, by omega, by omega, ?_, by omega, by omega⟩
    simp [h, rep]
  · simp only [h, if_false]
    refine ⟨(w - x.length) / 2 + (if (w - x.length) % 2 = 1 ∧ w % 2 = 1 then 1 else 0), (w - x.length) -
      ((w - x.length) / 2 + (if (w - x.length) % 2 = 1 ∧ w % 2 = 1 then 1 else 0)), ?_, ?_, rfl, ?_, ?_⟩
    all_goals (split <;> omega)

theorem centre_length (x : Str) (w : Int) : ((centre x w).length : Int) = max (x.length : Int) w := by
  obtain ⟨a, b, ha, hb, he, hs, _⟩ := centre_shape x w
  rw [he]
  simp only [List.length_append, rep, List.length_replicate]
  omega

/-- `last` as the loop keeps it: every word of the open line and one blank each -/
def span (l : List Str) : Int := (l.map fun w => (w.length : Int) + 1).sum

theorem span_append (l : List Str) (w : Str) : span (l ++ [w]) = span l + w.length + 1 := by
  simp [span, List.sum_append]; omega

/-- the invariant of the wrapping loop -/
structure WrapInv (width : Int) (done : List Str) (st : List (List Str) × List Str × Int) : Prop where
  words : st.1.flatten ++ st.2.1 = done
  last : st.2.2 = span st.2.1
  fitOpen : 2 ≤ st.2.1.length → span st.2.1 - 1 < width - 10
  fitDone : ∀ l ∈ st.1, 2 ≤ l.length → span l - 1 < width - 10

theorem wrapStep_inv (width : Int) (done : List Str) (st : List (List Str) × List Str × Int) (w : Str)
    (h : WrapInv width done st) : WrapInv width (done ++ [w]) (wrapStep width st w) := by
  obtain ⟨h1, h2, h3, h4⟩ := h
  unfold wrapStep
  by_cases hc : (w.length : Int) + st.2.2 < width - 10
  · simp only [hc, if_true]
    refine ⟨?_, ?_, ?_, h4⟩
    · simp only; rw [← List.append_assoc, h1]
    · simp only; rw [span_append, h2]
    · intro _
      simp only; rw [span_append]; rw [h2] at hc; omega
  · simp only [hc, if_false]
    refine ⟨?_, ?_, ?_, ?_⟩
    · simp only [List.flatten_append, List.flatten_cons, List.flatten_nil, List.append_nil]; rw [h1]
    · simp [span]
    · intro h; simp at h
    · intro l hl
      rcases List.mem_append.mp hl with hl | hl
      · exact h4 l hl
      · simp only [List.mem_singleton] at hl; subst hl; exact h3

theorem wrap_fold_inv_gen (width : Int) (ws : List Str) :
    ∀ done st, WrapInv width done st → WrapInv width (done ++ ws) (ws.foldl (wrapStep width) st) := by
  induction ws with
  | nil => intro done st h; simpa using h
  | cons w ws ih =>
    intro done st h
    have := ih (done ++ [w]) _ (wrapStep_inv width done st w h)
    simpa [List.append_assoc] using this

theorem wrap_fold_inv (width : Int) (words : List Str) :
    WrapInv width words (words.foldl (wrapStep width) ([], [], 0)) := by
  have := wrap_fold_inv_gen width words [] ([], [], 0)
    ⟨rfl, rfl, by intro h; simp at h, by intro l hl; cases hl⟩
  simpa using this

/-- the wrapping loop loses no word, invents none and keeps their order -/
theorem wrapWords_flatten (width : Int) (words : List Str) : (wrapWords width words).flatten = words := by
  have h := (wrap_fold_inv width words).words
  unfold wrapWords
  simpa using h

/-- every line of two or more words is shorter than width - 10 (words and the blanks between them) -/
theorem wrapWords_fit (width : Int) (words : List Str) :
    ∀ l ∈ wrapWords width words, 2 ≤ l.length → span l - 1 < width - 10 := by
  intro l hl
  have h := wrap_fold_inv width words
  unfold wrapWords at hl
  rcases List.mem_append.mp hl with hl | hl
  · exact h.fitDone l hl
  · simp only [List.mem_singleton] at hl; subst hl; exact h.fitOpen

/-- the length of a joined line is its span less the blank after the last word -/
theorem intercalate_length (l : List Str) (hl : l ≠ []) :
    (((lit " ").intercalate l).length : Int) = span l - 1 := by
  induction l with
  | nil => exact absurd rfl hl
  | cons a t ih =>
    cases t with
    | nil => simp [List.intercalate, span]
    | cons b t' =>
      have := ih (by simp)
      simp only [List.intercalate, List.intersperse, List.flatten_cons, List.length_append] at this ⊢
      simp only [span, List.map_cons, List.sum_cons] at this ⊢
      have hl1 : (lit " ").length = 1 := by decide
      simp only [hl1]
      push_cast at this ⊢
      omega

/-- the header's fixed frame: it opens with an empty line and the centred, spaced-out, upper-case title ... -/
theorem addHeaders_head (width : Int) (ttl subtitle author email description : Str) (tunings : List (Str × Str)) :
    (addHeaders width ttl subtitle author email description tunings).take 2 =
      [[], centre ((lit "  ").intercalate ((Tun.upper ttl).map fun c => [c])) width] := by
  unfold addHeaders
  simp only
  split <;> split <;> split <;> split <;> simp

/-- ... and closes with two empty lines, whatever fields are filled in -/
theorem addHeaders_tail (width : Int) (ttl subtitle author email description : Str) (tunings : List (Str × Str)) :
    ∃ body, addHeaders width ttl subtitle author email description tunings = body ++ [[], []] := by
  unfold addHeaders
  exact ⟨_, rfl⟩

/-- a header with only a title is exactly four lines -/
theorem addHeaders_title_only (width : Int) (ttl : Str) :
    addHeaders width ttl [] [] [] [] [] =
      [[], centre ((lit "  ").intercalate ((Tun.upper ttl).map fun c => [c])) width, [], []] := by
  simp [addHeaders]

example : wrapWords 20 [lit "aaa", lit "bbbb", lit "cc", lit "ddddddddddddd", lit "e"] =
    [[lit "aaa", lit "bbbb"], [lit "cc"], [lit "ddddddddddddd"], [lit "e"]] := by decide +kernel

end Mingus.Props.C20
