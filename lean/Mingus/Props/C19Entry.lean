import Mingus.Props.C19
/-
  C19 — LilyPond entries (what `from_NoteContainer` writes for one bar entry): an independent reader recovers the
  notes — rest, single note or chord of any size, any accidentals, any octaves — and, for every value of the vocabulary, the
  base value and the dots.
-/
namespace Mingus.Props.C19
open Mingus Mingus.Export Mingus.Containers

/-! ### splitting on spaces -/

def splitSp : Str → List Str
  | [] => [[]]
  | c :: t => if c = ' ' then [] :: splitSp t else
    match splitSp t with
    | h :: r => (c :: h) :: r
    | [] => [[c]]

theorem splitSp_ne_nil (x : Str) : splitSp x ≠ [] := by
  induction x with
  | nil => simp [splitSp]
  | cons c t ih =>
    simp only [splitSp]
    split
    · simp
    · cases h : splitSp t with
      | nil => exact absurd h ih
      | cons a b => simp

theorem splitSp_no_space (x : Str) (h : ' ' ∉ x) : splitSp x = [x] := by
  induction x with
  | nil => rfl
  | cons c t ih =>
    have hc : c ≠ ' ' := by intro e; exact h (by simp [e])
    have ht : ' ' ∉ t := by intro e; exact h (by simp [e])
    simp only [splitSp, hc, if_false, ih ht]

theorem splitSp_append (a b : Str) (h : ' ' ∉ a) : splitSp (a ++ ' ' :: b) = a :: splitSp b := by
  induction a with
  | nil => simp [splitSp]
  | cons c t ih =>
    have hc : c ≠ ' ' := by intro e; exact h (by simp [e])
    have ht : ' ' ∉ t := by intro e; exact h (by simp [e])
    simp only [List.cons_append, splitSp, hc, if_false, ih ht]

theorem splitSp_intercalate (parts : List Str) (hne : parts ≠ []) (h : ∀ p ∈ parts, ' ' ∉ p) :
    splitSp ((lit " ").intercalate parts) = parts := by
  induction parts with
  | nil => exact absurd rfl hne
  | cons p ps ih =>
    cases ps with
    | nil => simp [List.intercalate, splitSp_no_space p (h p (by simp))]
    | cons q qs =>
      have : (lit " ").intercalate (p :: q :: qs) = p ++ ' ' :: (lit " ").intercalate (q :: qs) := by
        simp [List.intercalate, lit]
      rw [this, splitSp_append _ _ (h p (by simp)), ih (by simp) (fun x hx => h x (by simp [hx]))]

/-! ### pitch tokens contain no blank, no digit, no backslash, no bracket -/

abbrev plain (c : Char) : Prop := c ≠ ' ' ∧ c ≠ '>' ∧ c ≠ '\\' ∧ c.isDigit = false ∧ c ≠ '<' ∧ c ≠ '{' ∧ c ≠ '}'

theorem lyAcc_plain (t : Str) : ∀ c ∈ lyAcc t, plain c := by
  induction t with
  | nil => simp [lyAcc]
  | cons a as ih =>
    intro c hc
    simp only [lyAcc, List.mem_append] at hc
    rcases hc with hc | hc
    · split at hc
      · simp [lit] at hc; rcases hc with rfl | rfl <;> exact (by decide)
      · split at hc
        · simp [lit] at hc; rcases hc with rfl | rfl <;> exact (by decide)
        · simp at hc
    · exact ih c hc

theorem lyOctave_plain (o : Int) : ∀ c ∈ lyOctave o, plain c := by
  intro c hc
  unfold lyOctave at hc
  split at hc
  · have := List.eq_of_mem_replicate hc; subst this; exact (by decide)
  · split at hc
    · have := List.eq_of_mem_replicate hc; subst this; exact (by decide)
    · simp at hc

theorem lyNote_plain (l : Char) (t : Str) (o ch vel : Int) (hl : isUpperLetter l) (x : Str)
    (h : lyNote ⟨l :: t, o, ch, vel⟩ true false = .ok x) : ∀ c ∈ x, plain c := by
  simp only [lyNote, pure, Except.pure, Bool.false_eq_true, if_false, if_true, Except.ok.injEq] at h
  subst h
  intro c hc
  simp only [List.cons_append, List.nil_append, List.singleton_append, List.mem_cons, List.mem_append] at hc
  rcases hc with rfl | hc | hc
  · rcases hl with rfl | rfl | rfl | rfl | rfl | rfl | rfl <;> exact (by decide)
  · exact lyAcc_plain t c hc
  · exact lyOctave_plain o c hc

/-! ### the notes of an entry -/

def GoodNote (n : Note) : Prop := ∃ l t, n.name = l :: t ∧ isUpperLetter l ∧ accOnly t

def pitchOf (n : Note) : Char × Str × Int := (lowerChar (n.name.headD 'C'), n.name.drop 1, n.octave)

/-- an independent reader of the note part of an entry: `r`, one pitch, or `<p p …>` -/
def readNotes (x : Str) : Option (List (Char × Str × Int)) :=
  match x with
  | ['r'] => some []
  | '<' :: rest =>
    (match rest.getLast? with
     | some '>' => (splitSp rest.dropLast).mapM readPitch
     | _ => none)
  | _ => (readPitch x).map fun p => [p]

theorem readPitch_lyNote (n : Note) (h : GoodNote n) :
    ∃ x, lyNote n true false = .ok x ∧ readPitch x = some (pitchOf n) ∧ ∀ c ∈ x, plain c := by
  obtain ⟨l, t, hn, hl, ht⟩ := h
  have hn' : n = ⟨l :: t, n.octave, n.channel, n.velocity⟩ := by cases n; simp at hn; simp [hn]
  have := lyNote_roundtrip l t n.octave n.channel n.velocity hl ht
  cases hx : lyNote ⟨l :: t, n.octave, n.channel, n.velocity⟩ true false with
  | error e => simp [hx, Except.toOption] at this
  | ok x =>
    simp only [hx, Except.toOption, Option.bind] at this
    refine ⟨x, by rw [hn']; exact hx, ?_, lyNote_plain l t _ _ _ hl x hx⟩
    rw [this]; simp [pitchOf, hn]

theorem mapM_lyNote (ns : List Note) (h : ∀ n ∈ ns, GoodNote n) :
    ∃ parts, ns.mapM (fun n => lyNote n true false) = .ok parts ∧ parts.mapM readPitch = some (ns.map pitchOf) ∧
      (∀ p ∈ parts, ∀ c ∈ p, plain c) ∧ parts.length = ns.length := by
  induction ns with
  | nil => exact ⟨[], rfl, rfl, by simp, rfl⟩
  | cons n ns ih =>
    obtain ⟨x, h1, h2, h3⟩ := readPitch_lyNote n (h n (by simp))
    obtain ⟨ps, i1, i2, i3, i4⟩ := ih (fun m hm => h m (by simp [hm]))
    refine ⟨x :: ps, ?_, ?_, ?_, by simp [i4]⟩
    · rw [List.mapM_cons, h1]; simp only [bind, Except.bind, i1]; rfl
    · simp [List.mapM_cons, h2, i2]
    · intro p hp
      rcases List.mem_cons.1 hp with rfl | hp
      · exact h3
      · exact i3 p hp

/-- **the notes of any entry are recovered**: a rest (None or the empty container), a single note, a chord of any size -/
theorem readNotes_lyNC (c : Option NC) (h : ∀ n ∈ c.getD [], GoodNote n) :
    ∃ x, lyNC c none false = .ok x ∧ readNotes x = some ((c.getD []).map pitchOf) ∧ (∀ ch ∈ x, ch ≠ '\\' ∧ ch.isDigit = false) := by
  cases c with
  | none => exact ⟨lit "r", rfl, rfl, by intro ch hc; simp [lit] at hc; subst hc; exact ⟨by decide, by decide⟩⟩
  | some ns =>
    cases ns with
    | nil => exact ⟨lit "r", rfl, rfl, by intro ch hc; simp [lit] at hc; subst hc; exact ⟨by decide, by decide⟩⟩
    | cons n rest =>
      cases rest with
      | nil =>
        obtain ⟨x, h1, h2, h3⟩ := readPitch_lyNote n (h n (by simp))
        refine ⟨x, by simp [lyNC, h1, bind, Except.bind, pure, Except.pure], ?_, fun ch hc => ⟨(h3 ch hc).2.2.1, (h3 ch hc).2.2.2.1⟩⟩
        -- a pitch token is neither `r` nor starts with `<`
        have hx : ∃ l t, x = l :: t ∧ 'a'.toNat ≤ l.toNat ∧ l.toNat ≤ 'g'.toNat := by
          cases x with
          | nil => simp [readPitch] at h2
          | cons l t =>
            refine ⟨l, t, rfl, ?_⟩
            simp only [readPitch] at h2
            split at h2
            · assumption
            · cases h2
        obtain ⟨l, t, rfl, hl1, hl2⟩ := hx
        unfold readNotes
        split
        · rename_i heq; cases heq; simp at hl1 hl2
        · rename_i heq; cases heq; simp at hl1 hl2
        · simp [h2]
      | cons m rest' =>
        obtain ⟨parts, h1, h2, h3, h4⟩ := mapM_lyNote (n :: m :: rest') h
        have hne : parts ≠ [] := by intro e; rw [e] at h4; simp at h4
        have hsp : ∀ p ∈ parts, ' ' ∉ p := fun p hp hc => (h3 p hp ' ' hc).1 rfl
        refine ⟨lit "<" ++ (lit " ").intercalate parts ++ lit ">", ?_, ?_, ?_⟩
        · simp only [lyNC, h1, bind, Except.bind, pure, Except.pure, Bool.false_eq_true, if_false, List.append_nil]
        · have : lit "<" ++ (lit " ").intercalate parts ++ lit ">" = '<' :: ((lit " ").intercalate parts ++ ['>']) := by simp [lit]
          rw [this]
          simp only [readNotes, List.getLast?_append, List.getLast?_singleton, Option.some_or, List.dropLast_concat]
          rw [splitSp_intercalate parts hne hsp, h2]; rfl
        · intro ch hc
          simp only [lit, List.mem_append, List.mem_cons, List.mem_nil_iff, or_false] at hc
          rcases hc with (hc | hc) | hc
          · have : ch = '<' := by simpa using hc
            subst this; exact ⟨by decide, by decide⟩
          · -- a character of the intercalation is a blank or a character of a part
            have : ch = ' ' ∨ ∃ p ∈ parts, ch ∈ p := by
              clear h1 h2 h4 hne hsp h3
              induction parts with
              | nil => simp [List.intercalate] at hc
              | cons p ps ih =>
                cases ps with
                | nil => simp [List.intercalate] at hc; exact Or.inr ⟨p, by simp, hc⟩
                | cons q qs =>
                  have e : ("".toList ++ " ".toList).intercalate (p :: q :: qs) = p ++ ' ' :: (" ".toList).intercalate (q :: qs) := by
                    simp [List.intercalate]
                  have e2 : (" ".toList).intercalate (p :: q :: qs) = p ++ ' ' :: (" ".toList).intercalate (q :: qs) := by
                    simp [List.intercalate]
                  rw [e2] at hc
                  simp only [List.mem_append, List.mem_cons] at hc
                  rcases hc with hc | rfl | hc
                  · exact Or.inr ⟨p, by simp, hc⟩
                  · exact Or.inl rfl
                  · rcases ih hc with h' | ⟨p', hp', hcp⟩
                    · exact Or.inl h'
                    · exact Or.inr ⟨p', by simp [hp'], hcp⟩
            rcases this with rfl | ⟨p, hp, hcp⟩
            · exact ⟨by decide, by decide⟩
            · exact ⟨(h3 p hp ch hcp).2.2.1, (h3 p hp ch hcp).2.2.2.1⟩
          · have : ch = '>' := by simpa using hc
            subst this; exact ⟨by decide, by decide⟩

/-! ### the duration suffix -/

def durStart (c : Char) : Bool := c = '\\' || c.isDigit

def splitDur (x : Str) : Str × Str := (x.takeWhile (fun c => !durStart c), x.dropWhile (fun c => !durStart c))

theorem splitDur_append (a b : Str) (ha : ∀ c ∈ a, c ≠ '\\' ∧ c.isDigit = false) (hb : ∀ c ∈ b.head?, durStart c = true) :
    splitDur (a ++ b) = (a, b) := by
  unfold splitDur
  induction a with
  | nil =>
    cases b with
    | nil => rfl
    | cons c cs =>
      have := hb c (by simp)
      simp [List.takeWhile, List.dropWhile, this]
  | cons x xs ih =>
    have hx := ha x (by simp)
    have hd : durStart x = false := by simp [durStart, hx.1, hx.2]
    have := ih (fun c hc => ha c (by simp [hc]))
    simp only [Prod.mk.injEq] at this
    simp [List.takeWhile, List.dropWhile, hd, this.1, this.2]

/-- base value (`\longa`, `\breve` or a decimal number) and the number of trailing dots -/
def readDur (x : Str) : Option (Rat × Nat) :=
  let dots := (x.reverse.takeWhile (· = '.')).length
  let body := x.take (x.length - dots)
  if body = lit "\\longa" then some (1/4, dots)
  else if body = lit "\\breve" then some (1/2, dots)
  else (Note.parseNat? body).map fun n => ((n : Rat), dots)

/-- one entry: notes, then (optionally) the duration -/
def readEntry (x : Str) : Option (List (Char × Str × Int) × Option (Rat × Nat)) :=
  let p := splitDur x
  match readNotes p.1 with
  | none => none
  | some notes => if p.2 = [] then some (notes, none) else (readDur p.2).map fun d => (notes, some d)

/-- every duration text the exporter can write for the vocabulary starts with a digit or a backslash and reads back -/
theorem readDur_table : ∀ b ∈ bases, ∀ d ∈ [0, 1, 2],
    readDur (baseText b ++ List.replicate d '.') = some (b, d) ∧
    (∀ c ∈ (baseText b ++ List.replicate d '.').head?, durStart c = true) ∧ baseText b ++ List.replicate d '.' ≠ [] := by
  decide +kernel

/-- **an entry with a duration**: for any container (rest, note, chord of any size) and every value of the vocabulary —
    base values longa … 128th with 0–2 dots — the text `from_NoteContainer` writes reads back as the notes, the base value and
    the dots -/
theorem readEntry_dotted (c : Option NC) (h : ∀ n ∈ c.getD [], GoodNote n) (b : Rat) (hb : b ∈ bases) (d : Nat) (hd : d ∈ [0, 1, 2]) :
    (lyNC c (some (Value.dotsF b d)) false).toOption.bind readEntry = some ((c.getD []).map pitchOf, some (b, d)) := by
  obtain ⟨x, h1, h2, h3⟩ := readNotes_lyNC c h
  have hdur := (duration_table.1 b hb d hd).1
  obtain ⟨r1, r2, r3⟩ := readDur_table b hb d hd
  have hly : lyNC c (some (Value.dotsF b d)) false = .ok (x ++ (baseText b ++ List.replicate d '.')) := by
    unfold lyNC at h1 ⊢
    simp only [bind, Except.bind, pure, Except.pure, Bool.false_eq_true, if_false, List.append_nil] at h1 ⊢
    split at h1
    · cases h1
    · rename_i body hbody
      simp only [Except.ok.injEq] at h1
      subst h1
      simp only [hbody, hdur]
  rw [hly]
  simp only [Except.toOption, Option.bind, readEntry, splitDur_append x _ h3 r2, h2, r3, if_false, r1, Option.map_some]

/-- … and for every triplet, quintuplet and septuplet of the values 1 … 128 (whose ratio is `duration_table`'s) -/
theorem readEntry_tuplet (c : Option NC) (h : ∀ n ∈ c.getD [], GoodNote n) (b : Rat) (hb : b ∈ bases.drop 2)
    (r : Nat × Nat) (hr : r ∈ [(3, 2), (5, 4), (7, 4)]) :
    (lyNC c (some (Value.tuplet b r.1 r.2)) false).toOption.bind readEntry = some ((c.getD []).map pitchOf, some (b, 0)) := by
  obtain ⟨x, h1, h2, h3⟩ := readNotes_lyNC c h
  have hdur := (duration_table.2 b hb r hr).1
  have hb' : b ∈ bases := List.mem_of_mem_drop hb
  obtain ⟨r1, r2, r3⟩ := readDur_table b hb' 0 (by simp)
  simp only [List.replicate_zero, List.append_nil] at r1 r2 r3
  have hly : lyNC c (some (Value.tuplet b r.1 r.2)) false = .ok (x ++ baseText b) := by
    unfold lyNC at h1 ⊢
    simp only [bind, Except.bind, pure, Except.pure, Bool.false_eq_true, if_false, List.append_nil] at h1 ⊢
    split at h1
    · cases h1
    · rename_i body hbody
      simp only [Except.ok.injEq] at h1
      subst h1
      simp only [hbody, hdur]
  rw [hly]
  simp only [Except.toOption, Option.bind, readEntry, splitDur_append x _ h3 r2, h2, r3, if_false, r1, Option.map_some]

end Mingus.Props.C19
