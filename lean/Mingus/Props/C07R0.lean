import Mingus.Props.C07Defs
/- GENERATED once by the snippet recorded in DESIGN.md (slice 0 of the recognise-all theorem): kernel evaluation of
   every rotation of every listed shorthand on all 21 roots. -/
namespace Mingus.Props.C07
open Mingus
def sliceKeys0 : List Str := [lit "M11", lit "sus47", lit "m7b5", lit "", lit "5"]
theorem slice0 : ∀ k ∈ sliceKeys0, keyOK k = true := by decide +kernel
end Mingus.Props.C07
