import Mingus.Props.C07Defs
/- GENERATED once by the snippet recorded in DESIGN.md (slice 6 of the recognise-all theorem): kernel evaluation of
   every rotation of every listed shorthand on all 21 roots. -/
namespace Mingus.Props.C07
open Mingus
def sliceKeys6 : List Str := [lit "67", lit "7b9", lit "m11", lit "m7", lit "6"]
theorem slice6 : ∀ k ∈ sliceKeys6, keyOK k = true := by decide +kernel
end Mingus.Props.C07
