import Mingus.Lemmas.Chords
/-
  C06 — chord shorthand builds exactly the chord its formula prescribes on every root.
  `shorthand_formula` is unbounded in the root (any letter, any accidentals in any order); the table facts
  are kernel evaluations of the whole table; slash/polychord semantics are evaluated over a stated finite domain.
-/
namespace Mingus.Props.C06
open Mingus Mingus.Notes Mingus.Keys Mingus.Intervals Mingus.Scales Mingus.Chords

/-! ### Spec: chord formulas as (letters above the root, semitones above the root) -/
def P1 : Nat × Int := (0, 0)
def m2 : Nat × Int := (1, 1)
def M2 : Nat × Int := (1, 2)
def A2 : Nat × Int := (1, 3)
def m3 : Nat × Int := (2, 3)
def M3 : Nat × Int := (2, 4)
def P4 : Nat × Int := (3, 5)
def A4 : Nat × Int := (3, 6)
def d5 : Nat × Int := (4, 6)
def P5 : Nat × Int := (4, 7)
def A5 : Nat × Int := (4, 8)
def M6 : Nat × Int := (5, 9)
def d7 : Nat × Int := (6, 9)
def m7 : Nat × Int := (6, 10)
def M7 : Nat × Int := (6, 11)

/-- the chord formulas (from the builders' documented names: m7 = 1 b3 5 b7, dim7 = 1 b3 b5 bb7, 7#11 adds #4, …) -/
def formula : List (Str × List (Nat × Int)) :=
  [(lit "m", [P1,m3,P5]), (lit "M", [P1,M3,P5]), (lit "", [P1,M3,P5]), (lit "dim", [P1,m3,d5]), (lit "aug", [P1,M3,A5]),
   (lit "+", [P1,M3,A5]), (lit "7#5", [P1,M3,A5,m7]), (lit "M7+5", [P1,M3,A5,m7]), (lit "M7+", [P1,M3,A5,M7]),
   (lit "m7+", [P1,M3,A5,m7]), (lit "7+", [P1,M3,A5,M7]), (lit "sus47", [P1,P4,P5,m7]), (lit "7sus4", [P1,P4,P5,m7]),
   (lit "sus4", [P1,P4,P5]), (lit "sus2", [P1,M2,P5]), (lit "sus", [P1,P4,P5]), (lit "11", [P1,P5,m7,P4]),
   (lit "add11", [P1,P5,m7,P4]), (lit "sus4b9", [P1,P4,P5,m2]), (lit "susb9", [P1,P4,P5,m2]), (lit "m7", [P1,m3,P5,m7]),
   (lit "M7", [P1,M3,P5,M7]), (lit "7", [P1,M3,P5,m7]), (lit "dom7", [P1,M3,P5,m7]), (lit "m7b5", [P1,m3,d5,m7]),
   (lit "dim7", [P1,m3,d5,d7]), (lit "m/M7", [P1,m3,P5,M7]), (lit "mM7", [P1,m3,P5,M7]), (lit "m6", [P1,m3,P5,M6]),
   (lit "M6", [P1,M3,P5,M6]), (lit "6", [P1,M3,P5,M6]), (lit "6/7", [P1,M3,P5,M6,m7]), (lit "67", [P1,M3,P5,M6,m7]),
   (lit "6/9", [P1,M3,P5,M6,M2]), (lit "69", [P1,M3,P5,M6,M2]), (lit "9", [P1,M3,P5,m7,M2]), (lit "add9", [P1,M3,P5,m7,M2]),
   (lit "7b9", [P1,M3,P5,m7,m2]), (lit "7#9", [P1,M3,P5,m7,A2]), (lit "M9", [P1,M3,P5,M7,M2]), (lit "m9", [P1,m3,P5,m7,M2]),
   (lit "7#11", [P1,M3,P5,m7,A4]), (lit "m11", [P1,m3,P5,m7,P4]), (lit "M11", [P1,M3,P5,M7,M2,P4]),
   (lit "M13", [P1,M3,P5,M7,M2,M6]), (lit "m13", [P1,m3,P5,m7,M2,M6]), (lit "13", [P1,M3,P5,m7,M2,M6]),
   (lit "add13", [P1,M3,P5,m7,M2,M6]), (lit "7b5", [P1,M3,d5,m7]), (lit "hendrix", [P1,M3,P5,m7,m3]),
   (lit "7b12", [P1,M3,P5,m7,m3]), (lit "5", [P1,P5])]

/-! ### Whole-table facts (kernel evaluation) -/
/-- every builder's note expressions denote exactly its formula -/
theorem builders_match_formulas :
    chordShorthand.map (fun r => (r.1, r.2.map exprSpec)) = formula.map (fun r => (r.1, r.2.map some)) := by
  decide +kernel

/-- the constructible shorthands are exactly the shorthands that have a textual meaning -/
theorem constructible_eq_meaningful :
    (∀ k ∈ chordShorthand.map (·.1), k ∈ chordMeaning.map (·.1)) ∧
    (∀ k ∈ chordMeaning.map (·.1), k ∈ chordShorthand.map (·.1)) := by decide +kernel
theorem keys_nodup : (chordShorthand.map (·.1)).Nodup := by decide +kernel

/-- shorthands with the same meaning build the same chord -/
theorem same_meaning_same_builder :
    ∀ a ∈ chordMeaning, ∀ b ∈ chordMeaning, a.2 = b.2 → chordShorthand.lookup a.1 = chordShorthand.lookup b.1 := by
  decide +kernel

/-- the named builder functions are the table entries -/
theorem named_builders_in_table : ∀ r ∈ namedKey, (chordShorthand.lookup r.2).isSome = true := by decide +kernel

/-! ### Main theorem: the formula on every root -/
theorem builder_formula (k : Str) (es : List NoteExpr) (hk : (k, es) ∈ chordShorthand)
    (l : Char) (t : Str) (hv : valid (l :: t) = true) :
    ∃ ns specs, formula.lookup k = some specs ∧ evalBuilder es (l :: t) = .ok ns ∧
      MatchSpec l (pc (l :: t)) ns specs ∧ ns.head? = some (l :: t) := by
  have hrow : ∀ r ∈ chordShorthand, ∃ specs, formula.lookup r.1 = some specs ∧ r.2.map exprSpec = specs.map some ∧
      r.2.head? = some NoteExpr.root := by decide +kernel
  obtain ⟨specs, h1, h2, h3⟩ := hrow (k, es) hk
  obtain ⟨ns, h4, h5⟩ := evalBuilder_good es specs h2 (good_of_valid l t hv)
  refine ⟨ns, specs, h1, h4, h5, ?_⟩
  cases es with
  | nil => simp at h3
  | cons e es' =>
    simp at h3; subst h3
    simp only [evalBuilder, List.mapM_cons, evalExpr, bind, Except.bind] at h4
    split at h4
    · cases h4
    · simp [pure, Except.pure] at h4; rw [← h4]; rfl

/-! ### The parser on `root ++ shorthand` (unbounded in the root) -/
def keyFacts (k : Str) (es : List NoteExpr) : Bool :=
  normalize k == k
  && (match k.head? with | some ch => ch != '#' && ch != 'b' | none => true)
  && (match scanRest k 0 none with
      | (none, none) => true
      | (none, some _) => slashExceptions.contains k
      | _ => false)
  && chordShorthand.lookup k == some es

theorem all_keyFacts : ∀ r ∈ chordShorthand, keyFacts r.1 r.2 = true := by decide +kernel

theorem not_nc (l : Char) (t x : Str) (hl : isLetter l = true) :
    ¬ ((l :: t) ++ x = lit "NC" ∨ (l :: t) ++ x = lit "N.C.") := by
  have : l ≠ 'N' := by intro e; subst e; revert hl; decide
  intro h
  rcases h with h | h <;> (simp [lit] at h; exact this h.1)

/-- shared core: the parse of `root ++ j` when `j` is already in normal form, starts with no accidental
    and contains no polychord bar and no (non-exceptional) slash -/
theorem parse_core (l : Char) (t : Str) (hv : valid (l :: t) = true) (j : Str) (f : Nat) (sl : Slash)
    (hn : normalize j = j) (hh : ∀ ch, j.head? = some ch → ch ≠ '#' ∧ ch ≠ 'b')
    (hs : scanRest j 0 none = (none, none) ∨ (∃ i, scanRest j 0 none = (none, some i)) ∧ slashExceptions.contains j = true) :
    fromShorthandAux (f + 1) ((l :: t) ++ j) sl = fromShorthandAux.finish (l :: t) j sl := by
  have hl : isLetter l = true := by simp only [valid, Bool.and_eq_true] at hv; exact hv.1
  have ht : t.all isAcc = true := by simp only [valid, Bool.and_eq_true] at hv; exact hv.2
  have hnorm : normalize ((l :: t) ++ j) = (l :: t) ++ j := by
    rw [normalize_prefix _ _ (fun ch hc => ⟨(root_chars l t hv ch hc).1, (root_chars l t hv ch hc).2.1⟩), hn]
  have hnorm' : normalize (l :: (t ++ j)) = l :: (t ++ j) := by simpa using hnorm
  unfold fromShorthandAux
  rw [if_neg (not_nc l t j hl)]
  simp only [List.cons_append, hnorm', hl, Bool.not_true, Bool.false_eq_true, if_false]
  rw [takeWhile_acc t j ht hh]
  simp only [List.drop_left]
  rcases hs with h | ⟨⟨i, h⟩, hc⟩
  · simp only [h]
  · simp only [h, hc, Bool.not_true, Bool.false_eq_true, if_false]

/-- every known shorthand on every root parses to its builder applied to that root -/
theorem plain_parse (k : Str) (es : List NoteExpr) (hk : (k, es) ∈ chordShorthand)
    (l : Char) (t : Str) (hv : valid (l :: t) = true) :
    Chords.fromShorthand ((l :: t) ++ k) = evalBuilder es (l :: t) := by
  have hf := all_keyFacts (k, es) hk
  simp only [keyFacts, Bool.and_eq_true, beq_iff_eq] at hf
  obtain ⟨⟨⟨h1, h2⟩, h3⟩, h4⟩ := hf
  have hh : ∀ ch, k.head? = some ch → ch ≠ '#' ∧ ch ≠ 'b' := by
    intro ch hch; rw [hch] at h2; simpa using h2
  have hs : scanRest k 0 none = (none, none) ∨ (∃ i, scanRest k 0 none = (none, some i)) ∧ slashExceptions.contains k = true := by
    rcases hsc : scanRest k 0 none with ⟨a, b⟩
    rw [hsc] at h3
    cases a <;> cases b <;> simp_all
  unfold Chords.fromShorthand
  rw [parse_core l t hv k _ .none h1 hh hs]
  simp only [fromShorthandAux.finish, h4]
  cases evalBuilder es (l :: t) <;> rfl

/-- the chord of a known shorthand on any root follows the formula (parser + builder together) -/
theorem shorthand_formula (k : Str) (es : List NoteExpr) (hk : (k, es) ∈ chordShorthand)
    (l : Char) (t : Str) (hv : valid (l :: t) = true) :
    ∃ ns specs, formula.lookup k = some specs ∧ Chords.fromShorthand ((l :: t) ++ k) = .ok ns ∧
      MatchSpec l (pc (l :: t)) ns specs ∧ ns.head? = some (l :: t) := by
  obtain ⟨ns, specs, h1, h2, h3, h4⟩ := builder_formula k es hk l t hv
  exact ⟨ns, specs, h1, by rw [plain_parse k es hk l t hv, h2], h3, h4⟩

/-! ### Alias spellings -/
/-- every way of writing each `m` as m, min, mi or '-' and each `M` as M, maj or ma -/
def aliasSpellings : Str → List Str
  | [] => [[]]
  | ch :: t =>
    let tails := aliasSpellings t
    if ch = 'm' then tails.flatMap fun x => [lit "m" ++ x, lit "min" ++ x, lit "mi" ++ x, lit "-" ++ x]
    else if ch = 'M' then tails.flatMap fun x => [lit "M" ++ x, lit "maj" ++ x, lit "ma" ++ x]
    else tails.map (ch :: ·)

theorem aliases_normalize : ∀ r ∈ chordShorthand, ∀ k' ∈ aliasSpellings r.1,
    normalize k' = r.1 ∧ sepCount k' = sepCount r.1 := by decide +kernel

theorem aux_congr (f : Nat) (a b : Str) (sl : Slash)
    (ha : ¬ (a = lit "NC" ∨ a = lit "N.C.")) (hb : ¬ (b = lit "NC" ∨ b = lit "N.C."))
    (h : normalize a = normalize b) : fromShorthandAux (f + 1) a sl = fromShorthandAux (f + 1) b sl := by
  unfold fromShorthandAux
  rw [if_neg ha, if_neg hb]
  simp only [h]

/-- the spellings min, mi, '-' and maj, ma are interchangeable with m and M, on every root -/
theorem alias_interchangeable (k : Str) (es : List NoteExpr) (hk : (k, es) ∈ chordShorthand) (k' : Str)
    (hk' : k' ∈ aliasSpellings k) (l : Char) (t : Str) (hv : valid (l :: t) = true) :
    Chords.fromShorthand ((l :: t) ++ k') = Chords.fromShorthand ((l :: t) ++ k) := by
  have hl : isLetter l = true := by simp only [valid, Bool.and_eq_true] at hv; exact hv.1
  obtain ⟨h1, h2⟩ := aliases_normalize (k, es) hk k' hk'
  have hf := all_keyFacts (k, es) hk
  simp only [keyFacts, Bool.and_eq_true, beq_iff_eq] at hf
  have hpre := fun x => normalize_prefix (l :: t) x
    (fun ch hc => ⟨(root_chars l t hv ch hc).1, (root_chars l t hv ch hc).2.1⟩)
  unfold Chords.fromShorthand
  rw [sepCount_append, sepCount_append, h2]
  exact aux_congr _ _ _ _ (not_nc l t k' hl) (not_nc l t k hl) (by rw [hpre, hpre, h1, hf.1.1.1])

/-! ### Rejections -/
theorem unknown_shorthand (l : Char) (t : Str) (hv : valid (l :: t) = true) (j : Str)
    (hn : normalize j = j) (hh : ∀ ch, j.head? = some ch → ch ≠ '#' ∧ ch ≠ 'b')
    (hs : scanRest j 0 none = (none, none)) (hu : chordShorthand.lookup j = none) :
    Chords.fromShorthand ((l :: t) ++ j) = .error .format := by
  unfold Chords.fromShorthand
  rw [parse_core l t hv j _ .none hn hh (Or.inl hs)]
  simp [fromShorthandAux.finish, hu]

theorem bad_root (sh : Str) (hnc : ¬ (sh = lit "NC" ∨ sh = lit "N.C.")) (c : Char) (r : Str)
    (hn : normalize sh = c :: r) (hc : isLetter c = false) : Chords.fromShorthand sh = .error .noteFormat := by
  unfold Chords.fromShorthand fromShorthandAux
  rw [if_neg hnc]
  simp [hn, hc]

theorem no_chord : Chords.fromShorthand (lit "NC") = .ok [] ∧ Chords.fromShorthand (lit "N.C.") = .ok [] := by decide +kernel

/-! ### Slash chords and polychords (stated finite domain, kernel evaluation) -/
def roots21 : List Str := baseScale.flatMap fun l => [[l], [l, '#'], [l, 'b']]
def basses : List Str := [lit "G", lit "Bb", lit "F#", lit "E"]
def slashOK (r k b : Str) : Bool :=
  match Chords.fromShorthand (r ++ k), Chords.fromShorthand (r ++ k ++ lit "/" ++ b) with
  | .ok ch, .ok sl => sl == b :: ch
  | _, _ => false
/-- a slash chord is the bass note followed by the chord -/
theorem slash_chord : ∀ row ∈ chordShorthand, ∀ r ∈ roots21, ∀ b ∈ basses, slashOK r row.1 b = true := by
  decide +kernel

/-- spec of 'X|Y': Y's notes, then X's notes, a note equal to the one just before it is not repeated -/
def specPoly (x y : List Str) : List Str :=
  x.foldl (fun acc n => if acc.getLast? = some n then acc else acc ++ [n]) y
def reps : List Str := ["", "m", "dim", "aug", "7", "M7", "m7", "sus4", "6", "9", "m7b5", "5", "13", "7b5"].map String.toList
def rootPairs : List (Str × Str) :=
  [("C", "G"), ("D", "F#"), ("Bb", "Bb"), ("E", "C"), ("A", "E"), ("F#", "Db")].map fun p => (p.1.toList, p.2.toList)
def polyOK (x y : Str) : Bool :=
  match Chords.fromShorthand x, Chords.fromShorthand y, Chords.fromShorthand (x ++ lit "|" ++ y) with
  | .ok cx, .ok cy, .ok p => p == specPoly cx cy
  | _, _, _ => false
theorem polychord : ∀ k1 ∈ reps, ∀ k2 ∈ reps, ∀ rp ∈ rootPairs, polyOK (rp.1 ++ k1) (rp.2 ++ k2) = true := by
  decide +kernel

/-- non-vacuity -/
example : Chords.fromShorthand (lit "Cb#bdim7") = .ok (["Cb#b", "Ebb", "Gbb", "Bbbb"].map String.toList) := by decide +kernel
example : Chords.fromShorthand (lit "Amin7") = Chords.fromShorthand (lit "Am7") := by decide +kernel
example : Chords.fromShorthand (lit "Dm|G") = .ok (["G", "B", "D", "F", "A"].map String.toList) := by decide +kernel
example : Chords.fromShorthand (lit "Cfoo") = .error .format ∧ Chords.fromShorthand (lit "H7") = .error .noteFormat := by decide +kernel

end Mingus.Props.C06
