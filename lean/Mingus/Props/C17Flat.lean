import Mingus.Props.C17
/-
  C17 — the second stage of the reader (`MIDI_to_Composition`): delta times → bar entries.

  `view st` is what the statement calls the flattened sequence: the entries closed so far, bar after bar, as
  (value, notes), and the notes of the entry that is still open.  Whatever the float bar accounting decides about where
  bars end, every non-zero delta closes the open entry with that delta's length and every note-on joins the open entry
  (`run_view`).  The only way time can be lost is a placement refused on an *empty* bar; `FitsRun` says that this does not
  happen along the run (a delta longer than a whole bar, which the writer never produces for music that fits its bars).
-/
namespace Mingus.Props.C17
open Mingus Mingus.MidiIn Mingus.Containers Mingus.Midi

abbrev CEntry := Containers.Entry

def ev (e : CEntry) : Rat × NC := (e.value, e.content.getD [])

def allEntries (st : RState) : List CEntry := st.t.bars.flatMap (·.entries) ++ st.b.entries

/-- (entries closed so far, notes of the open entry) -/
def view (st : RState) : List (Rat × NC) × NC :=
  match st.b.entries.getLast? with
  | none => ((allEntries st).map ev, [])
  | some last => ((allEntries st).dropLast.map ev, last.content.getD [])

/-- every entry the reader holds carries a container (it never places `None`) -/
def Inv (st : RState) : Prop := ∀ e ∈ st.b.entries, e.content.isSome = true

theorem place_entries (b : Bar) (c : Option NC) (v : Rat) :
    (b.place c v).2.entries = if (b.place c v).1 then b.entries ++ [⟨b.current, v, c⟩] else b.entries := by
  unfold Bar.place
  simp only
  by_cases hc : F64.add b.current (F64.div 1 v) ≤ b.length ∨ b.length = 0
  · simp [hc]
  · simp [hc]

theorem new_entries (k : Str) (c : Int) (u : Rat) (nb : Bar) (h : Bar.new k c u = .ok nb) : nb.entries = [] := by
  unfold Bar.new at h
  simp only [bind, Except.bind] at h
  split at h
  · cases h
  · split at h
    · cases h
    · simp only [pure, Except.pure, Except.ok.injEq] at h; subst h; rfl

theorem dropLast_append_of_ne_nil {α} (a b : List α) (h : b ≠ []) : (a ++ b).dropLast = a ++ b.dropLast := by
  induction a with
  | nil => rfl
  | cons x xs ih =>
    cases hxs : xs ++ b with
    | nil => simp at hxs; exact absurd hxs.2 h
    | cons y ys => simp only [List.cons_append, hxs, List.dropLast_cons₂]; rw [← hxs, ih]

theorem view_of_snoc (st : RState) (pre : List CEntry) (last : CEntry) (h : st.b.entries = pre ++ [last]) :
    view st = ((st.t.bars.flatMap (·.entries) ++ pre).map ev, last.content.getD []) := by
  unfold view allEntries
  rw [h]
  simp only [List.getLast?_append, List.getLast?_singleton, Option.some_or]
  rw [dropLast_append_of_ne_nil _ _ (by simp)]
  simp

theorem view_of_nil (st : RState) (h : st.b.entries = []) :
    view st = ((st.t.bars.flatMap (·.entries)).map ev, []) := by
  unfold view allEntries
  simp [h]

theorem snoc_of_getLast? {α} (l : List α) (x : α) (h : l.getLast? = some x) : l = l.dropLast ++ [x] := by
  have hne : l ≠ [] := by intro e; simp [e] at h
  have := List.dropLast_append_getLast hne
  rw [List.getLast?_eq_some_getLast hne] at h
  simp only [Option.some.injEq] at h
  rw [← h]; exact this.symm

/-- closing the open entry: the bar then ends in an entry of this length holding the open entry's notes -/
theorem closeOpen_spec (st : RState) (dur : Rat) (hinv : Inv st)
    (hfit : st.b.entries = [] → (st.b.place emptyNC dur).1 = true) :
    ∃ pre last, (closeOpen st.b dur).entries = pre ++ [last] ∧ last.value = dur ∧ last.content.isSome = true ∧
      (∀ e ∈ pre, e.content.isSome = true) ∧
      ((st.t.bars.flatMap (·.entries) ++ pre).map ev, last.content.getD []) = view st := by
  unfold closeOpen
  cases hl : st.b.entries.getLast? with
  | none =>
    have hnil : st.b.entries = [] := List.getLast?_eq_none_iff.1 hl
    have hacc := hfit hnil
    refine ⟨[], ⟨st.b.current, dur, emptyNC⟩, ?_, rfl, rfl, by simp, ?_⟩
    · simp only [place_entries, hacc, if_true, hnil, List.nil_append]
    · rw [view_of_nil st hnil]; simp [emptyNC]
  | some last =>
    have hsn := snoc_of_getLast? _ _ hl
    have hmem : last ∈ st.b.entries := by rw [hsn]; simp
    refine ⟨st.b.entries.dropLast, { last with value := dur }, ?_, rfl, hinv last hmem, ?_, ?_⟩
    · simp only
      split <;> rfl
    · intro e he; exact hinv e (List.mem_of_mem_dropLast he)
    · rw [view_of_snoc st _ last hsn]

/-- **a non-zero delta** closes the open entry with the delta's length and opens an empty one -/
theorem onDelta_view (st st' : RState) (dur : Rat) (hinv : Inv st) (h : onDelta st dur = .ok st')
    (hfit : st.b.entries = [] → (st.b.place emptyNC dur).1 = true) :
    Inv st' ∧ view st' = ((view st).1 ++ [(dur, (view st).2)], []) := by
  obtain ⟨pre, last, hes, hval, hsome, hpre, hview⟩ := closeOpen_spec st dur hinv hfit
  rw [← hview]
  unfold onDelta at h
  simp only at h
  by_cases hok : ((closeOpen st.b dur).place emptyNC dur).1 = true
  · simp only [hok, if_true, pure, Except.pure, Except.ok.injEq] at h
    subst h
    have hent : ((closeOpen st.b dur).place emptyNC dur).2.entries = (pre ++ [last]) ++ [⟨(closeOpen st.b dur).current, dur, emptyNC⟩] := by
      rw [place_entries, hok, if_pos rfl, hes]
    refine ⟨?_, ?_⟩
    · intro e he
      simp only at he
      rw [hent] at he
      simp only [List.mem_append, List.mem_singleton] at he
      rcases he with (he | he) | he
      · exact hpre e he
      · subst he; exact hsome
      · subst he; rfl
    · rw [view_of_snoc _ (pre ++ [last]) ⟨(closeOpen st.b dur).current, dur, emptyNC⟩ (by simpa using hent)]
      simp [ev, hval, emptyNC, List.map_append]
  · simp only [hok, Bool.false_eq_true, if_false, bind, Except.bind] at h
    split at h
    · cases h
    · rename_i nb hnb
      simp only [pure, Except.pure, Except.ok.injEq] at h
      subst h
      have hnil := new_entries _ _ _ nb hnb
      have hb1 : (st.t.bars ++ [closeOpen st.b dur]).flatMap (·.entries) = st.t.bars.flatMap (·.entries) ++ (pre ++ [last]) := by
        simp [List.flatMap_append, hes]
      by_cases hok2 : (nb.place emptyNC dur).1 = true
      · have hent : (nb.place emptyNC dur).2.entries = [] ++ [⟨nb.current, dur, emptyNC⟩] := by
          rw [place_entries, hok2, if_pos rfl, hnil]
        refine ⟨?_, ?_⟩
        · intro e he
          simp only at he
          rw [hent] at he
          simp only [List.nil_append, List.mem_singleton] at he
          subst he; rfl
        · rw [view_of_snoc _ [] ⟨nb.current, dur, emptyNC⟩ (by simpa using hent)]
          simp only [List.append_nil, hb1]
          simp [ev, hval, emptyNC, List.map_append]
      · have hent : (nb.place emptyNC dur).2.entries = [] := by
          rw [place_entries]; simp [hok2, hnil]
        refine ⟨?_, ?_⟩
        · intro e he; simp only at he; rw [hent] at he; simp at he
        · rw [view_of_nil _ (by simpa using hent)]
          simp only [hb1]
          simp [ev, hval, List.map_append]

theorem addNoteObj_nil (n : Note) : NC.addNoteObj [] n = [n] := by
  simp [NC.addNoteObj, NC.hasPitch, NC.sort, NC.insertSorted]

/-- **a note-on** joins the open entry (on an empty bar it opens one) -/
theorem addOn_view (st st' : RState) (n : Note) (hinv : Inv st) (h : addOn st n = .ok st')
    (hfit : st.b.entries = [] → (st.b.plus (some [n])).1 = true) :
    Inv st' ∧ view st' = ((view st).1, NC.addNoteObj (view st).2 n) := by
  unfold addOn at h
  cases hl : st.b.entries.getLast? with
  | none =>
    have hnil : st.b.entries = [] := List.getLast?_eq_none_iff.1 hl
    simp only [hl, pure, Except.pure, Except.ok.injEq] at h
    subst h
    have hacc := hfit hnil
    unfold Bar.plus at hacc ⊢
    have hent : (st.b.place (some [n]) (if st.b.meter.2 ≠ 0 then st.b.meter.2 else 4)).2.entries =
        [] ++ [⟨st.b.current, (if st.b.meter.2 ≠ 0 then st.b.meter.2 else 4), some [n]⟩] := by
      rw [place_entries, hacc, if_pos rfl, hnil]
    refine ⟨?_, ?_⟩
    · intro e he
      simp only at he
      rw [hent] at he
      simp only [List.nil_append, List.mem_singleton] at he
      subst he; rfl
    · rw [view_of_snoc _ [] _ (by simpa using hent), view_of_nil st hnil]
      simp [addNoteObj_nil]
  | some last =>
    have hsn := snoc_of_getLast? _ _ hl
    have hmem : last ∈ st.b.entries := by rw [hsn]; simp
    have hsome := hinv last hmem
    cases hc : last.content with
    | none => simp [hc] at hsome
    | some nc =>
      simp only [hl, hc, pure, Except.pure, Except.ok.injEq] at h
      subst h
      refine ⟨?_, ?_⟩
      · intro e he
        simp only [List.mem_append, List.mem_singleton] at he
        rcases he with he | he
        · exact hinv e (List.mem_of_mem_dropLast he)
        · subst he; rfl
      · rw [view_of_snoc _ st.b.entries.dropLast { last with content := some (NC.addNoteObj nc n) } rfl,
          view_of_snoc st _ last hsn]
        simp [hc]

/-- events that are not note-ons leave the entries alone -/
theorem entries_unchanged_view (st st' : RState) (hb : st'.b.entries = st.b.entries) (ht : st'.t.bars = st.t.bars) :
    view st' = view st ∧ (Inv st → Inv st') := by
  refine ⟨?_, fun h e he => h e (hb ▸ he)⟩
  unfold view allEntries
  rw [hb, ht]

def isOn : PEv → Bool
  | .chan 9 _ _ (some _) => true
  | _ => false

theorem onEvent_other (st st' : RState) (e : PEv) (hne : isOn e = false) (h : onEvent st e = .ok st') :
    st'.b.entries = st.b.entries ∧ st'.t.bars = st.t.bars := by
  unfold onEvent at h
  split at h
  · simp [isOn] at hne
  · simp only [pure, Except.pure, Except.ok.injEq] at h; subst h; exact ⟨rfl, rfl⟩
  · simp only [pure, Except.pure, Except.ok.injEq] at h; subst h; exact ⟨rfl, rfl⟩
  · split at h
    · cases h
    · simp only [pure, Except.pure, Except.ok.injEq] at h; subst h; exact ⟨rfl, rfl⟩
  · simp only [bind, Except.bind] at h
    split at h
    · cases h
    · split at h
      · cases h
      · simp only [pure, Except.pure, Except.ok.injEq] at h; subst h; exact ⟨rfl, rfl⟩
  · split at h
    · simp only [bind, Except.bind] at h
      split at h
      · cases h
      · rename_i b hb
        simp only [pure, Except.pure, Except.ok.injEq] at h; subst h
        refine ⟨?_, rfl⟩
        unfold Bar.setMeter at hb
        split at hb
        · simp only [pure, Except.pure, Except.ok.injEq] at hb; subst hb; rfl
        · split at hb
          · simp only [pure, Except.pure, Except.ok.injEq] at hb; subst hb; rfl
          · cases hb
    · cases h
  · split at h
    · simp only [bind, Except.bind] at h
      split at h
      · cases h
      · simp only [pure, Except.pure, Except.ok.injEq] at h; subst h; exact ⟨rfl, rfl⟩
    · cases h
  · simp only [pure, Except.pure, Except.ok.injEq] at h; subst h; exact ⟨rfl, rfl⟩

/-! ### the whole run -/

/-- the length of a delta in whole notes, as the reader computes it, and the value it stores -/
def gap (tpb d : Nat) : Rat := F64.div d (F64.mul tpb 4)
def durOf (tpb d : Nat) : Rat := F64.div 1 (gap tpb d)

def absNote (cur : NC) : PEv → NC
  | .chan 9 ch p1 (some p2) => (match noteOf ch p1 p2 with | .ok n => NC.addNoteObj cur n | .error _ => cur)
  | _ => cur

/-- the statement's reading of one (delta, event) pair: a non-zero delta closes the open entry with the delta's length;
    a note-on joins the open entry -/
def absStep (tpb : Nat) (acc : List (Rat × NC) × NC) (de : Nat × PEv) : List (Rat × NC) × NC :=
  let acc1 := if gap tpb de.1 ≠ 0 then (acc.1 ++ [(durOf tpb de.1, acc.2)], []) else acc
  (acc1.1, absNote acc1.2 de.2)

/-- along the run, no placement on an *empty* bar is refused -/
def FitsRun (tpb : Nat) : RState → List (Nat × PEv) → Prop
  | _, [] => True
  | st, de :: rest =>
    (gap tpb de.1 ≠ 0 → st.b.entries = [] → (st.b.place emptyNC (durOf tpb de.1)).1 = true) ∧
    ∀ st1, (if gap tpb de.1 ≠ 0 then onDelta st (durOf tpb de.1) else pure st) = Except.ok st1 →
      (∀ ch p1 p2 n, de.2 = .chan 9 ch p1 (some p2) → noteOf ch p1 p2 = .ok n → st1.b.entries = [] →
        (st1.b.plus (some [n])).1 = true) ∧
      ∀ st', onEvent st1 de.2 = .ok st' → FitsRun tpb st' rest

theorem onEvent_view (st st' : RState) (e : PEv) (hinv : Inv st) (h : onEvent st e = .ok st')
    (hfit : ∀ ch p1 p2 n, e = .chan 9 ch p1 (some p2) → noteOf ch p1 p2 = .ok n → st.b.entries = [] →
      (st.b.plus (some [n])).1 = true) :
    Inv st' ∧ view st' = ((view st).1, absNote (view st).2 e) := by
  by_cases hon : isOn e = true
  · -- a note-on
    cases e with
    | metaE t d => simp [isOn] at hon
    | chan k ch p1 p2 =>
      cases p2 with
      | none => simp [isOn] at hon
      | some p2 =>
        have hk : k = 9 := by
          unfold isOn at hon
          split at hon
          · rename_i heq; cases heq; rfl
          · cases hon
        subst hk
        simp only [onEvent, bind, Except.bind] at h
        cases hn : noteOf ch p1 p2 with
        | error err => simp [hn] at h
        | ok n =>
          simp only [hn] at h
          obtain ⟨i1, i2⟩ := addOn_view st st' n hinv h (hfit ch p1 p2 n rfl hn)
          exact ⟨i1, by rw [i2]; simp [absNote, hn]⟩
  · have hne : isOn e = false := by simpa using hon
    obtain ⟨hb, ht⟩ := onEvent_other st st' e hne h
    obtain ⟨v1, v2⟩ := entries_unchanged_view st st' hb ht
    refine ⟨v2 hinv, ?_⟩
    rw [v1]
    have : absNote (view st).2 e = (view st).2 := by
      cases e with
      | metaE t d => rfl
      | chan k ch p1 p2 =>
        cases p2 with
        | none => simp [absNote]
        | some p2 =>
          unfold absNote
          split
          · rename_i heq; cases heq; simp [isOn] at hne
          · rfl
    rw [this]

theorem step_view (tpb : Nat) (st st' : RState) (de : Nat × PEv) (hinv : Inv st) (h : step tpb st de = .ok st')
    (hfit1 : gap tpb de.1 ≠ 0 → st.b.entries = [] → (st.b.place emptyNC (durOf tpb de.1)).1 = true)
    (hfit2 : ∀ st1, (if gap tpb de.1 ≠ 0 then onDelta st (durOf tpb de.1) else pure st) = Except.ok st1 →
      ∀ ch p1 p2 n, de.2 = .chan 9 ch p1 (some p2) → noteOf ch p1 p2 = .ok n → st1.b.entries = [] →
        (st1.b.plus (some [n])).1 = true) :
    Inv st' ∧ view st' = absStep tpb (view st) de := by
  unfold step at h
  by_cases ht : tpb = 0
  · simp [ht] at h
  · simp only [ht, if_false, bind, Except.bind] at h
    by_cases hg : gap tpb de.1 ≠ 0
    · have hg' : F64.div (de.1 : Rat) (F64.mul (tpb : Rat) 4) ≠ 0 := hg
      simp only [hg', ne_eq, not_false_eq_true, if_true] at h
      split at h
      · cases h
      · rename_i st1 h1
        have h1' : onDelta st (durOf tpb de.1) = .ok st1 := h1
        obtain ⟨i1, v1⟩ := onDelta_view st st1 _ hinv h1' (hfit1 hg)
        obtain ⟨i2, v2⟩ := onEvent_view st1 st' de.2 i1 h (hfit2 st1 (by simp only [hg, ne_eq, not_false_eq_true, if_true]; exact h1'))
        refine ⟨i2, ?_⟩
        rw [v2, v1]
        simp [absStep, hg]
    · have hg' : ¬ (F64.div (de.1 : Rat) (F64.mul (tpb : Rat) 4) ≠ 0) := hg
      simp only [hg', if_false, pure, Except.pure] at h
      obtain ⟨i2, v2⟩ := onEvent_view st st' de.2 hinv h (hfit2 st (by simp only [hg, if_false]; rfl))
      refine ⟨i2, ?_⟩
      rw [v2]
      simp [absStep, hg]

/-- **the second stage, for every event list**: as long as no placement on an empty bar is refused, the entries the
    reader has closed are exactly one per non-zero delta, carrying that delta's length and the notes that started since
    the previous non-zero delta — wherever the float bar accounting decides to start new bars -/
theorem run_view (tpb : Nat) (evs : List (Nat × PEv)) : ∀ (st st' : RState), Inv st →
    evs.foldlM (step tpb) st = .ok st' → FitsRun tpb st evs →
    Inv st' ∧ view st' = evs.foldl (absStep tpb) (view st) := by
  induction evs with
  | nil => intro st st' hinv h _; simp only [List.foldlM_nil, pure, Except.pure, Except.ok.injEq] at h; subst h; exact ⟨hinv, rfl⟩
  | cons de rest ih =>
    intro st st' hinv h hf
    rw [List.foldlM_cons] at h
    cases h1 : step tpb st de with
    | error e => simp [h1, bind, Except.bind] at h
    | ok s1 =>
      simp only [h1, bind, Except.bind] at h
      obtain ⟨f1, f2⟩ := hf
      obtain ⟨i1, v1⟩ := step_view tpb st s1 de hinv h1 f1 (fun sx hx => (f2 sx hx).1)
      have hrest : FitsRun tpb s1 rest := by
        -- recover the intermediate state of this step
        unfold step at h1
        by_cases ht : tpb = 0
        · simp [ht] at h1
        · simp only [ht, if_false, bind, Except.bind] at h1
          by_cases hg : gap tpb de.1 ≠ 0
          · have hg' : F64.div (de.1 : Rat) (F64.mul (tpb : Rat) 4) ≠ 0 := hg
            simp only [hg', ne_eq, not_false_eq_true, if_true] at h1
            split at h1
            · cases h1
            · rename_i sm hsm
              have hsm' : onDelta st (durOf tpb de.1) = .ok sm := hsm
              exact (f2 sm (by simp only [hg, ne_eq, not_false_eq_true, if_true]; exact hsm')).2 s1 h1
          · have hg' : ¬ (F64.div (de.1 : Rat) (F64.mul (tpb : Rat) 4) ≠ 0) := hg
            simp only [hg', if_false, pure, Except.pure] at h1
            exact (f2 st (by simp only [hg, if_false]; rfl)).2 s1 h1
      obtain ⟨i2, v2⟩ := ih s1 st' i1 h hrest
      exact ⟨i2, by rw [v2, v1]; rfl⟩

/-- the composition that comes back: its flattened entries are the closed entries followed by at most one trailing
    entry (the one still open when the track ends — "trailing rests created by the final note-off are ignored") -/
theorem readTrack_flat (tpb : Nat) (bpm : Int) (evs : List (Nat × PEv)) (rt : RTrack) (bpm' : Int)
    (h : readTrack tpb bpm evs = .ok (rt, bpm')) (hf : FitsRun tpb { bpm := bpm } evs) :
    ∃ tail, tail.length ≤ 1 ∧
      (rt.bars.flatMap (·.entries)).map ev = (evs.foldl (absStep tpb) ([], [])).1 ++ tail := by
  unfold readTrack at h
  simp only [bind, Except.bind] at h
  split at h
  · cases h
  · rename_i st hst
    simp only [pure, Except.pure, Except.ok.injEq, Prod.mk.injEq] at h
    obtain ⟨h1, _⟩ := h
    subst h1
    have hinv0 : Inv ({ bpm := bpm } : RState) := by intro e he; simp at he
    obtain ⟨_, v⟩ := run_view tpb evs _ st hinv0 hst hf
    have hv0 : view ({ bpm := bpm } : RState) = ([], []) := by simp [view, allEntries]
    rw [hv0] at v
    rw [← v]
    simp only [List.flatMap_append, List.flatMap_cons, List.flatMap_nil, List.append_nil]
    cases hl : st.b.entries.getLast? with
    | none =>
      have hnil := List.getLast?_eq_none_iff.1 hl
      refine ⟨[], by simp, ?_⟩
      rw [view_of_nil st hnil, hnil]; simp
    | some last =>
      have hsn := snoc_of_getLast? _ _ hl
      refine ⟨[ev last], by simp, ?_⟩
      rw [view_of_snoc st _ last hsn]
      conv => lhs; rw [hsn]
      simp [List.map_append]

end Mingus.Props.C17
