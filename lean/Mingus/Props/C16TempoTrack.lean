import Mingus.Props.C16Tempo
/-
  C16 — bars, tracks, repeats and the writers refine the specification ALSO when containers carry a tempo.

  `specEntryT` extends `specEntry`: a sounding entry that carries a tempo `b` writes the tempo event `FF 51 03 (60000000 div b)`
  with the accumulated rest as its delta and then what the same entry without the tempo writes after no rest; a rest with a
  tempo writes nothing.  `entry_refinesT`, `entries_refineT`, `bar_refinesT`, `bars_refineT`, `track_refinesT`,
  `writeTrack_specT`, `writeBar_specT`, `writeComposition_specT`: the pending-delta machine writes exactly those events, for
  ANY bar, track and composition, any repeat count, any number of tempo changes (each tempo at least 4: `okBpm`).
  The denotation theorems (note timeline, balance, parse-back) stay stated for music without mid-bar tempo changes.
-/
namespace Mingus.Props.C16
open Mingus Mingus.Midi Mingus.Containers

def tempoMeta (b : Int) : Ev := .metaE 81 (be 3 ((60000000 : Int) / b).toNat)

def specEntryT (s : S) (e : MEntry) : List TEv × S :=
  match e.bpm with
  | none => specEntry s e
  | some b =>
    if e.notes = [] then specEntry s (plain e)
    else (⟨s.delay, tempoMeta b⟩ :: (specEntry { s with delay := 0 } (plain e)).1, (specEntry { s with delay := 0 } (plain e)).2)

/-- an entry the extended specification speaks about -/
def okEntryT (e : MEntry) : Prop := okEntry (plain e) ∧ ∀ b, e.bpm = some b → okBpm b

theorem plain_of_none (e : MEntry) (h : e.bpm = none) : plain e = e := by
  cases e; simp only [plain] at *; simp_all

theorem okInstr_specEntryT (s : S) (e : MEntry) (h : okInstr s) : okInstr (specEntryT s e).2 := by
  unfold specEntryT
  cases e.bpm with
  | none => exact okInstr_specEntry s e h
  | some b =>
    simp only
    split
    · exact okInstr_specEntry s (plain e) h
    · exact okInstr_specEntry { s with delay := 0 } (plain e) h

theorem entry_refinesT (t : MT) (evs : List TEv) (s : S) (e : MEntry) (hr : Rel t evs s) (hi : okInstr s)
    (he : okEntryT e) :
    ∃ t', t.playEntry e = .ok t' ∧ Rel t' (evs ++ (specEntryT s e).1) (specEntryT s e).2 := by
  obtain ⟨hp, hb⟩ := he
  unfold specEntryT
  cases hbpm : e.bpm with
  | none =>
    have := plain_of_none e hbpm
    rw [this] at hp
    exact entry_refines t evs s e hr hi hp
  | some b =>
    simp only
    by_cases hn : e.notes = []
    · rw [if_pos hn]
      obtain ⟨t', h1, h2⟩ := entry_refines t evs s (plain e) hr hi hp
      refine ⟨t', ?_, h2⟩
      have hv : e.value ≠ 0 := hp.1
      rw [rest_tempo_silent t e hv hn]
      rw [← h1, rest_tempo_silent t (plain e) hv hn]
      rfl
    · rw [if_neg hn]
      obtain ⟨t', h1, h2⟩ := entry_tempo_refines t evs s e b hbpm (hb b hbpm) hr hi hp hn
      exact ⟨t', h1, by simpa [tempoMeta] using h2⟩

def specEntriesT (s : S) : List MEntry → List TEv × S
  | [] => ([], s)
  | e :: es => ((specEntryT s e).1 ++ (specEntriesT (specEntryT s e).2 es).1, (specEntriesT (specEntryT s e).2 es).2)

theorem entries_refineT (es : List MEntry) : ∀ (t : MT) (evs : List TEv) (s : S), Rel t evs s → okInstr s →
    (∀ e ∈ es, okEntryT e) →
    ∃ t', es.foldlM MT.playEntry t = .ok t' ∧ Rel t' (evs ++ (specEntriesT s es).1) (specEntriesT s es).2 ∧
      okInstr (specEntriesT s es).2 := by
  induction es with
  | nil => intro t evs s hr hi _; exact ⟨t, rfl, by simpa [specEntriesT] using hr, hi⟩
  | cons e es ih =>
    intro t evs s hr hi he
    obtain ⟨t1, h1, r1⟩ := entry_refinesT t evs s e hr hi (he e (by simp))
    obtain ⟨t2, h2, r2, i2⟩ := ih t1 _ _ r1 (okInstr_specEntryT s e hi) (fun x hx => he x (by simp [hx]))
    refine ⟨t2, ?_, ?_, i2⟩
    · rw [List.foldlM_cons, h1]; exact h2
    · simpa [specEntriesT, List.append_assoc] using r2

/-- without tempo-carrying entries the extended specification is the plain one -/
theorem specEntriesT_plain (es : List MEntry) (h : ∀ e ∈ es, e.bpm = none) : ∀ s, specEntriesT s es = specEntries s es := by
  induction es with
  | nil => intro s; rfl
  | cons e es ih =>
    intro s
    have he : specEntryT s e = specEntry s e := by unfold specEntryT; rw [h e (by simp)]
    simp only [specEntriesT, specEntries, he, ih (fun x hx => h x (by simp [hx]))]

def okBarT (b : MBar) : Prop :=
  0 ≤ b.count ∧ b.count < 256 ∧ 1 ≤ b.unit ∧ (keyEv? b.key).isSome = true ∧ ∀ e ∈ b.entries, okEntryT e

def specBarT (s : S) (b : MBar) : List TEv × S :=
  ([⟨s.delay, meterEv b⟩, ⟨0, keyEv b.key⟩] ++ (specEntriesT { s with delay := 0 } b.entries).1,
   (specEntriesT { s with delay := 0 } b.entries).2)

theorem bar_refinesT (t : MT) (evs : List TEv) (s : S) (b : MBar) (hr : Rel t evs s) (hi : okInstr s) (hb : okBarT b) :
    ∃ t', t.playBar b = .ok t' ∧ Rel t' (evs ++ (specBarT s b).1) (specBarT s b).2 ∧ okInstr (specBarT s b).2 := by
  obtain ⟨r1, r2, r3, r4⟩ := hr
  obtain ⟨b1, b2, b3, b4, b5⟩ := hb
  have hm : ∀ t0 : MT, t0.setMeter b.count b.unit = .ok (t0.emit (meterEv b)) := by
    intro t0; simp [MT.setMeter, meterEv, b1, b2, b3]
  unfold MT.playBar
  simp only [bind, Except.bind, hm, MT.setDelta, setKey_ok _ b.key b4]
  have hrel : Rel ((({ t with pending := t.delay, delay := 0 } : MT).emit (meterEv b) |> fun x => ({ x with pending := 0 } : MT)).emit (keyEv b.key))
      (evs ++ [⟨s.delay, meterEv b⟩, ⟨0, keyEv b.key⟩]) { s with delay := 0 } := by
    simp [Rel, MT.emit, r1, r2, r3, r4]
  have hi' : okInstr { s with delay := 0 } := hi
  obtain ⟨t', h1, h2, h3⟩ := entries_refineT b.entries _ _ _ hrel hi' b5
  refine ⟨t', h1, ?_, h3⟩
  simpa [specBarT, List.append_assoc] using h2

def specBarsT (s : S) : List MBar → List TEv × S
  | [] => ([], s)
  | b :: bs => ((specBarT s b).1 ++ (specBarsT (specBarT s b).2 bs).1, (specBarsT (specBarT s b).2 bs).2)

theorem bars_refineT (bs : List MBar) : ∀ (t : MT) (evs : List TEv) (s : S), Rel t evs s → okInstr s →
    (∀ b ∈ bs, okBarT b) →
    ∃ t', bs.foldlM MT.playBar t = .ok t' ∧ Rel t' (evs ++ (specBarsT s bs).1) (specBarsT s bs).2 ∧
      okInstr (specBarsT s bs).2 := by
  induction bs with
  | nil => intro t evs s hr hi _; exact ⟨t, rfl, by simpa [specBarsT] using hr, hi⟩
  | cons b bs ih =>
    intro t evs s hr hi hb
    obtain ⟨t1, h1, r1, i1⟩ := bar_refinesT t evs s b hr hi (hb b (by simp))
    obtain ⟨t2, h2, r2, i2⟩ := ih t1 _ _ r1 i1 (fun x hx => hb x (by simp [hx]))
    refine ⟨t2, ?_, ?_, i2⟩
    · rw [List.foldlM_cons, h1]; exact h2
    · simpa [specBarsT, List.append_assoc] using r2

def okTrackT (tr : MTrack) : Prop :=
  (∀ b ∈ tr.bars, okBarT b) ∧ (∀ nr, tr.instr = some nr → 0 ≤ nr ∧ nr ≤ 127)

def specTrackT (s : S) (tr : MTrack) : List TEv × S :=
  (⟨0, .metaE 3 (MT.asciiBytes tr.name)⟩ :: (specBarsT (withInstr s tr) tr.bars).1, (specBarsT (withInstr s tr) tr.bars).2)

theorem track_refinesT (t : MT) (evs : List TEv) (s : S) (tr : MTrack) (hr : Rel t evs s) (hi : okInstr s)
    (ht : okTrackT tr) :
    ∃ t', t.playTrack tr = .ok t' ∧ Rel t' (evs ++ (specTrackT s tr).1) (specTrackT s tr).2 ∧
      okInstr (specTrackT s tr).2 := by
  obtain ⟨r1, r2, r3, r4⟩ := hr
  unfold MT.playTrack
  simp only [bind, Except.bind]
  have hi' : okInstr (withInstr s tr) := by
    unfold withInstr
    cases hti : tr.instr with
    | none => exact hi
    | some nr => intro _; exact ht.2 nr hti
  have hrel : Rel (match tr.instr with
      | some nr => ({ ({ t with evs := t.evs ++ [⟨0, .metaE 3 (MT.asciiBytes tr.name)⟩] } : MT) with changeInstr := true, instr := nr } : MT)
      | none => ({ t with evs := t.evs ++ [⟨0, .metaE 3 (MT.asciiBytes tr.name)⟩] } : MT))
      (evs ++ [⟨0, .metaE 3 (MT.asciiBytes tr.name)⟩]) (withInstr s tr) := by
    unfold withInstr
    cases tr.instr <;> simp [Rel, r1, r2, r3, r4]
  obtain ⟨t', h1, h2, h3⟩ := bars_refineT tr.bars _ _ _ hrel hi' ht.1
  refine ⟨t', h1, ?_, h3⟩
  simpa [specTrackT, List.append_assoc] using h2

theorem trackOf_specT (tr : MTrack) (bpm rep : Int) (ht : okTrackT tr) (hb : okBpm bpm) :
    ∃ t, trackOf tr bpm rep = .ok t ∧
      t.evs = tempoEv bpm :: (specPasses (fun s => specTrackT s tr) (times rep) s0).1 := by
  obtain ⟨t0, h0, r0⟩ := init_ok bpm hb
  obtain ⟨t1, h1, r1⟩ := passes_refine (fun t => t.playTrack tr) (fun s => specTrackT s tr)
    (fun t evs s hr hi => track_refinesT t evs s tr hr hi ht) (times rep) t0 _ _ r0 okInstr_s0
  refine ⟨t1, ?_, by simpa using r1.1⟩
  simp only [trackOf, bind, Except.bind, h0, h1]

/-- **write_Track with tempo changes anywhere** -/
theorem writeTrack_specT (tr : MTrack) (bpm rep : Int) (ht : okTrackT tr) (hb : okBpm bpm) :
    ∃ t, writeTrack tr bpm rep = .ok (fileBytes [t]) ∧
      t.evs = tempoEv bpm :: (specPasses (fun s => specTrackT s tr) (times rep) s0).1 := by
  obtain ⟨t, h1, h2⟩ := trackOf_specT tr bpm rep ht hb
  exact ⟨t, by simp only [writeTrack, bind, Except.bind, h1, pure, Except.pure], h2⟩

theorem writeBar_specT (b : MBar) (bpm rep : Int) (hbar : okBarT b) (hb : okBpm bpm) :
    ∃ t, writeBar b bpm rep = .ok (fileBytes [t]) ∧
      t.evs = tempoEv bpm :: (specPasses (fun s => specBarT s b) (times rep) s0).1 := by
  obtain ⟨t0, h0, r0⟩ := init_ok bpm hb
  obtain ⟨t1, h1, r1⟩ := passes_refine (fun t => t.playBar b) (fun s => specBarT s b)
    (fun t evs s hr hi => bar_refinesT t evs s b hr hi hbar) (times rep) t0 _ _ r0 okInstr_s0
  refine ⟨t1, ?_, by simpa using r1.1⟩
  simp only [writeBar, bind, Except.bind, h0, h1, pure, Except.pure]

theorem mapM_trackOfT (trs : List MTrack) (bpm rep : Int) (ht : ∀ tr ∈ trs, okTrackT tr) (hb : okBpm bpm) :
    ∃ ts, (trs.mapM fun tr => trackOf tr bpm rep) = Except.ok ts ∧
      ts.map (·.evs) = trs.map (fun tr => tempoEv bpm :: (specPasses (fun s => specTrackT s tr) (times rep) s0).1) := by
  induction trs with
  | nil => exact ⟨[], rfl, rfl⟩
  | cons tr trs ih =>
    obtain ⟨ts, h1, h2⟩ := ih (fun x hx => ht x (by simp [hx]))
    obtain ⟨t, h3, h4⟩ := trackOf_specT tr bpm rep (ht tr (by simp)) hb
    refine ⟨t :: ts, ?_, ?_⟩
    · rw [List.mapM_cons, h3]
      simp only [bind, Except.bind]
      rw [h1]; rfl
    · simp only [List.map_cons, h2, h4]

/-- **write_Composition with tempo changes anywhere**: one chunk per track, each as `write_Track` would write it -/
theorem writeComposition_specT (trs : List MTrack) (bpm rep : Int) (ht : ∀ tr ∈ trs, okTrackT tr) (hb : okBpm bpm) :
    ∃ ts, writeComposition trs bpm rep = .ok (fileBytes ts) ∧
      ts.map (·.evs) = trs.map (fun tr => tempoEv bpm :: (specPasses (fun s => specTrackT s tr) (times rep) s0).1) := by
  obtain ⟨ts, h1, h2⟩ := mapM_trackOfT trs bpm rep ht hb
  exact ⟨ts, by simp only [writeComposition, bind, Except.bind, h1, pure, Except.pure], h2⟩

/-- non-vacuity (kernel): a 4/4 bar - a quarter note, a quarter rest, a half note that sets tempo 60 - written twice at 120:
    the machine's events are the tempo event followed by two passes of `specBarT`, with the tempo change carrying the rest -/
private def tb : MBar := ⟨"C".toList, 4, 4, [⟨4, [⟨"C".toList, 4, 1, 64⟩], none⟩, ⟨4, [], none⟩, ⟨2, [⟨"E".toList, 4, 3, 90⟩], some 60⟩]⟩
example : ((do let t ← MT.init 120; repeatM (fun t => t.playBar tb) 2 t) : Except Err MT).toOption.map (·.evs) =
    some (tempoEv 120 :: (specPasses (fun s => specBarT s tb) 2 s0).1) ∧
    (specBarT s0 tb).1.map (·.delta) = [0, 0, 0, 72, 72, 0, 144] := by
  decide +kernel

end Mingus.Props.C16
