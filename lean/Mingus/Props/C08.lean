import Mingus.Lemmas.Chords
import Mingus.Model.Progressions
import Mingus.Props.C06
/-
  C08 — diatonic harmony: functions, numerals and substitutions denote the right chords.
  Finite tables (30 keys × 7 degrees, the alias table, the substitution cores per numeral) are evaluated whole in the
  kernel; the progression-string theorems are unbounded in the number of accidentals of the prefix.
-/
namespace Mingus.Props.C08
open Mingus Mingus.Notes Mingus.Keys Mingus.Intervals Mingus.Scales Mingus.Chords Mingus.Progressions

/-! ### Triads and sevenths are stacked thirds inside the key's notes (all 30 keys) -/
def stackOK (key : Str) : Bool :=
  match getNotes key, triads key, sevenths key with
  | .ok ns, .ok ts, .ok ss =>
    ts == (List.range 7).map (fun i => [ns.getD i [], ns.getD ((i + 2) % 7) [], ns.getD ((i + 4) % 7) []]) &&
    ss == (List.range 7).map (fun i => [ns.getD i [], ns.getD ((i + 2) % 7) [], ns.getD ((i + 4) % 7) [], ns.getD ((i + 6) % 7) []])
  | _, _, _ => false
theorem stacked_thirds : ∀ k ∈ allKeys, stackOK k = true := by decide +kernel

/-! ### Function names and numeral aliases index the right row -/
def romanValue : List (Str × Nat) :=
  [("i", 0), ("ii", 1), ("iii", 2), ("iv", 3), ("v", 4), ("vi", 5), ("vii", 6)].map fun p => (p.1.toList, p.2)
def functionNames : List (Str × Nat) :=
  [("tonic", 0), ("supertonic", 1), ("mediant", 2), ("subdominant", 3), ("dominant", 4), ("submediant", 5), ("subtonic", 6)].map
    fun p => (p.1.toList, p.2)
/-- independent reading of a function name / numeral alias: (is a seventh chord, degree index) -/
def specFn (name : Str) : Option (Bool × Nat) :=
  let (base, sev) := if name.getLast? = some '7' then (name.dropLast, true) else (name, false)
  match functionNames.lookup base with
  | some i => some (sev, i)
  | none => (romanValue.lookup (base.map Char.toLower)).map fun i => (sev, i)
theorem aliases_index_right_row : ∀ row ∈ functionTable, specFn row.1 = some row.2 := by decide +kernel
theorem function_denotes_row (name key : Str) (sev : Bool) (i : Nat) (h : functionTable.lookup name = some (sev, i)) :
    chordFunction name key = (do
      let rows ← if sev then sevenths key else triads key
      match rows[i]? with | some r => pure r | none => throw .index) := by
  unfold chordFunction; simp only [h]; cases sev <;> rfl

/-! ### Progression strings -/
def accPrefix (a : Int) : Str := if a < 0 then List.replicate (-a).toNat 'b' else List.replicate a.toNat '#'

/-- a suffix the scanner stops at: it does not begin with '#', 'b', or an i/v in either case -/
def SuffixOK (sf : Str) : Prop :=
  ∀ c, sf.head? = some c → c ≠ '#' ∧ c ≠ 'b' ∧ c.toUpper ≠ 'I' ∧ c.toUpper ≠ 'V'

theorem parseGo_suffix (sf : Str) (h : SuffixOK sf) (roman : Str) (acc : Int) : parseGo sf roman acc = (roman, acc, sf) := by
  cases sf with
  | nil => rfl
  | cons c t =>
    obtain ⟨h1, h2, h3, h4⟩ := h c rfl
    simp [parseGo, h1, h2, h3, h4]

theorem parseGo_sharps (k : Nat) (rest roman : Str) (acc : Int) :
    parseGo (List.replicate k '#' ++ rest) roman acc = parseGo rest roman (acc + k) := by
  induction k generalizing acc with
  | zero => simp
  | succ k ih => simp only [List.replicate_succ, List.cons_append, parseGo, if_true]; rw [ih]; congr 1; omega

theorem parseGo_flats (k : Nat) (rest roman : Str) (acc : Int) :
    parseGo (List.replicate k 'b' ++ rest) roman acc = parseGo rest roman (acc - k) := by
  induction k generalizing acc with
  | zero => simp
  | succ k ih =>
    simp only [List.replicate_succ, List.cons_append, parseGo, show ¬ ('b' = '#') by decide, if_false, if_true]
    rw [ih]; congr 1; omega

/-- numerals in either case are read back as the upper-case numeral (whole table) -/
def anyCase (num : Str) : List Str := [num, num.map Char.toLower]
theorem parseGo_numeral : ∀ num ∈ numerals, ∀ w ∈ anyCase num, ∀ sf, SuffixOK sf → ∀ acc,
    parseGo (w ++ sf) [] acc = (num, acc, sf) := by
  intro num hn w hw sf hsf acc
  simp only [numerals, List.mem_cons, List.mem_nil_iff, or_false] at hn
  rcases hn with e | e | e | e | e | e | e <;> subst e <;>
    (simp only [anyCase, List.mem_cons, List.mem_nil_iff, or_false] at hw
     rcases hw with e | e <;> subst e <;>
       simp [parseGo, lit, parseGo_suffix sf hsf])

/-- `parse_string` on prefix + numeral (either case) + suffix, any number of sharps or flats -/
theorem parse_spec (a : Int) (num : Str) (hn : num ∈ numerals) (w : Str) (hw : w ∈ anyCase num) (sf : Str) (hsf : SuffixOK sf) :
    parseString (accPrefix a ++ w ++ sf) = (num, a, sf) := by
  unfold parseString accPrefix
  by_cases h : a < 0
  · rw [if_pos h, List.append_assoc, parseGo_flats, parseGo_numeral num hn w hw sf hsf]; congr 2; omega
  · rw [if_neg h, List.append_assoc, parseGo_sharps, parseGo_numeral num hn w hw sf hsf]; congr 2; omega

/-- numeral strings survive parse followed by format unchanged (prefix of up to six sharps or flats) -/
theorem parse_format_id (a : Int) (ha : -6 ≤ a ∧ a ≤ 6) (num : Str) (hn : num ∈ numerals) (sf : Str) (hsf : SuffixOK sf) :
    (let p := parseString (accPrefix a ++ num ++ sf); tupleToString p.1 p.2.1 p.2.2) = accPrefix a ++ num ++ sf := by
  rw [parse_spec a num hn num (by simp [anyCase]) sf hsf]
  have h1 : ¬ a > 6 := by omega
  have h2 : ¬ a < -6 := by omega
  simp only [tupleToString, h1, h2, if_false, accPrefix]

theorem iter_augment_good (k : Nat) {n : Str} {l : Char} {p : Int} (h : Good n l p) :
    Good (iter augment k n) l ((p + k) % 12) := by
  have hp : 0 ≤ p ∧ p < 12 := by rw [← h.2.2]; exact pc_range n
  induction k generalizing n p with
  | zero => simp only [iter]; exact ⟨h.1, h.2.1, by rw [h.2.2]; omega⟩
  | succ k ih =>
    simp only [iter]
    have := ih (augment_good h) (by omega)
    exact ⟨this.1, this.2.1, by rw [this.2.2]; omega⟩

theorem iter_diminish_good (k : Nat) {n : Str} {l : Char} {p : Int} (h : Good n l p) :
    Good (iter diminish k n) l ((p - k) % 12) := by
  have hp : 0 ≤ p ∧ p < 12 := by rw [← h.2.2]; exact pc_range n
  induction k generalizing n p with
  | zero => simp only [iter]; exact ⟨h.1, h.2.1, by rw [h.2.2]; omega⟩
  | succ k ih =>
    simp only [iter]
    have := ih (diminish_good h) (by omega)
    exact ⟨this.1, this.2.1, by rw [this.2.2]; omega⟩

/-- the accidental prefix shifts every chord note by exactly one semitone per accidental, on the same letter -/
def shift (a : Int) (r : List Str) : List Str :=
  if a < 0 then r.map (iter diminish (-a).toNat) else r.map (iter augment a.toNat)
theorem shift_spec (a : Int) (n : Str) (l : Char) (p : Int) (h : Good n l p) (r : List Str) (hn : n ∈ r) :
    ∃ m ∈ shift a r, Good m l ((p + a) % 12) := by
  unfold shift
  by_cases ha : a < 0
  · rw [if_pos ha]
    refine ⟨iter diminish (-a).toNat n, List.mem_map.2 ⟨n, hn, rfl⟩, ?_⟩
    have := iter_diminish_good (-a).toNat h
    exact ⟨this.1, this.2.1, by rw [this.2.2]; congr 1; omega⟩
  · rw [if_neg ha]
    refine ⟨iter augment a.toNat n, List.mem_map.2 ⟨n, hn, rfl⟩, ?_⟩
    have := iter_augment_good a.toNat h
    exact ⟨this.1, this.2.1, by rw [this.2.2]; congr 1; omega⟩

/-- what a progression string denotes: plain or '7' → the function's chord, any other known suffix → that chord type
    rebuilt on the degree's root; then shifted by the prefix.  Any key, any prefix length, either case. -/
theorem toChords_spec (a : Int) (num : Str) (hn : num ∈ numerals) (w : Str) (hw : w ∈ anyCase num) (sf : Str)
    (hsf : SuffixOK sf) (key : Str) :
    toChordsOne (accPrefix a ++ w ++ sf) key =
      (if sf = lit "7" ∨ sf = [] then (chordFunction (num ++ sf) key).map (fun r => some (shift a r))
       else do
         let base ← chordFunction num key
         match base.head?, chordShorthand.lookup sf with
         | _, none => throw .key
         | none, _ => throw .index
         | some r0, some es => (evalBuilder es r0).map (fun r => some (shift a r))) := by
  have hc : numerals.contains num = true := by simpa using hn
  unfold toChordsOne
  rw [parse_spec a num hn w hw sf hsf]
  simp only [hc, Bool.not_true, Bool.false_eq_true, if_false, shift]
  by_cases h7 : sf = lit "7" ∨ sf = []
  · simp only [h7, if_true]
    cases chordFunction (num ++ sf) key <;> simp [bind, Except.bind, Except.map, pure, Except.pure]
  · simp only [h7, if_false]
    cases chordFunction num key with
    | error e => simp [bind, Except.bind]
    | ok base =>
      simp only [bind, Except.bind]
      cases base.head? <;> cases chordShorthand.lookup sf <;>
        simp [throw, throwThe, MonadExceptOf.throw, Except.map, pure, Except.pure] <;>
        (rename_i r0 es; cases evalBuilder es r0 <;> simp [Except.map])

/-- an unrecognised numeral gives the documented empty answer -/
theorem unrecognised_numeral (x key : Str) (rest : List Str) (h : numerals.contains (parseString x).1 = false) :
    toChords (x :: rest) key = .ok [] := by
  have h' : ¬ (parseString x).1 ∈ numerals := by simpa using h
  simp [toChords, toChords.go, toChordsOne, h', bind, Except.bind, pure, Except.pure]

/-! ### determine is the inverse of to_chords on diatonic harmony (15 major keys × 7 × {triad, seventh}) -/
def shortNumerals : List Str := ["I", "ii", "iii", "IV", "V", "vi", "vii"].map String.toList
def inverseOK (key : Str) (i : Nat) (sev : Bool) : Bool :=
  match (if sev then sevenths key else triads key) with
  | .ok rows =>
    let ch := rows.getD i []
    let fname := functionNames.map (·.1) |>.getD i []
    let num := shortNumerals.getD i []
    (match Progressions.determine ch key false with
     | .ok r => r.contains (if sev then fname ++ lit " seventh" else fname)
     | _ => false) &&
    (match Progressions.determine ch key true with
     | .ok r => r.contains (if sev then num ++ lit "7" else num) &&
         toChords [if sev then num ++ lit "7" else num] key == .ok [ch]
     | _ => false)
  | _ => false
theorem determine_inverse : ∀ k ∈ majorKeys, ∀ i ∈ List.range 7, ∀ sev ∈ [false, true], inverseOK k i sev = true := by
  decide +kernel

/-! ### Substitution rules -/
def semiBase (num : Str) : Int :=
  match numerals.findIdx? (· == num) with
  | some i => numeralIntervals.getD i 0
  | none => -1000
/-- semitones above the tonic denoted by numeral + accidentals -/
def semi (num : Str) (a : Int) : Int := (semiBase num + a) % 12

/-- cores of the rules, per numeral: the substitute numeral and its accidental offset (whole table) -/
def coreOK (k : Nat) (iv : Int) (r : Str) : Bool :=
  match skip r k with
  | .ok n => (match intervalDiff r n iv with
    | .ok d => numerals.contains n && (semiBase n + d - semiBase r) % 12 == iv
    | _ => false)
  | _ => false
theorem minor_for_major_core : ∀ r ∈ numerals, coreOK 2 3 r = true := by decide +kernel
theorem major_for_minor_core : ∀ r ∈ numerals, coreOK 5 9 r = true := by decide +kernel

theorem core_unpack (k : Nat) (iv : Int) (r : Str) (h : coreOK k iv r = true) :
    ∃ n d, skip r k = .ok n ∧ intervalDiff r n iv = .ok d ∧ n ∈ numerals ∧
      ∀ a : Int, semi n (d + a) = (semi r a + iv) % 12 := by
  unfold coreOK at h
  split at h
  · rename_i n hn
    split at h
    · rename_i d hd
      simp only [Bool.and_eq_true, beq_iff_eq, List.contains_iff_mem] at h
      exact ⟨n, d, hn, hd, h.1, fun a => by simp only [semi]; omega⟩
    · cases h
  · cases h

/-- minor-for-major: for `<prefix><numeral>m` the substitute is a major chord a minor third above, any prefix length -/
theorem minor_for_major_spec (a : Int) (num : Str) (hn : num ∈ numerals) (ig : Bool) :
    ∃ n d, substituteMinorForMajor (accPrefix a ++ num ++ lit "m") ig = .ok [tupleToString n (d + a) (lit "M")] ∧
      n ∈ numerals ∧ semi n (d + a) = (semi num a + 3) % 12 := by
  obtain ⟨n, d, h1, h2, h3, h6⟩ := core_unpack 2 3 num (minor_for_major_core num hn)
  refine ⟨n, d, ?_, h3, h6 a⟩
  unfold substituteMinorForMajor
  rw [parse_spec a num hn num (by simp [anyCase]) (lit "m") (by intro c hc; simp [lit] at hc; subst hc; decide)]
  simp [h1, h2, bind, Except.bind, pure, Except.pure]

theorem major_for_minor_spec (a : Int) (num : Str) (hn : num ∈ numerals) (ig : Bool) :
    ∃ n d, substituteMajorForMinor (accPrefix a ++ num ++ lit "M") ig = .ok [tupleToString n (d + a) (lit "m")] ∧
      n ∈ numerals ∧ semi n (d + a) = (semi num a + 9) % 12 := by
  obtain ⟨n, d, h1, h2, h3, h6⟩ := core_unpack 5 9 num (major_for_minor_core num hn)
  refine ⟨n, d, ?_, h3, h6 a⟩
  unfold substituteMajorForMinor
  rw [parse_spec a num hn num (by simp [anyCase]) (lit "M") (by intro c hc; simp [lit] at hc; subst hc; decide)]
  simp [h1, h2, bind, Except.bind, pure, Except.pure]

/-- diminished substitutes cycle by minor thirds: per numeral, the three substitutes of `<numeral>dim` lie 3, 6 and 9
    semitones above it, read back through `parse_string` (prefix-free inputs; whole numeral table) -/
def dimCycleOK (num : Str) : Bool :=
  match substituteDimForDim (num ++ lit "dim") false with
  | .ok [x, y, z] =>
    let sx := parseString x; let sy := parseString y; let sz := parseString z
    numerals.contains sx.1 && numerals.contains sy.1 && numerals.contains sz.1 &&
    semi sx.1 sx.2.1 == (semi num 0 + 3) % 12 && semi sy.1 sy.2.1 == (semi num 0 + 6) % 12 &&
    semi sz.1 sz.2.1 == (semi num 0 + 9) % 12 &&
    sx.2.2 == lit "dim" && sy.2.2 == lit "dim" && sz.2.2 == lit "dim"
  | _ => false
theorem dim_cycle : ∀ num ∈ numerals, dimCycleOK num = true := by decide +kernel

/-- harmonic substitutes share two notes with the original triad (15 major keys × 7 numerals) -/
def harmonicOK (key num : Str) : Bool :=
  match substituteHarmonic num false, toChords [num] key with
  | .ok subs, .ok [orig] =>
    subs.all fun sub => match toChords [sub] key with
      | .ok [ch] => (orig.filter ch.contains).length ≥ 2
      | _ => false
  | _, _ => false
theorem harmonic_share_two : ∀ k ∈ majorKeys, ∀ num ∈ numerals, harmonicOK k num = true := by decide +kernel

/-- every output of every rule on every plain numeral, numeral7, numeral-m/M/dim/dim7 parses back to a numeral -/
def outputsWellFormed (p : Str) : Bool :=
  let ok := fun (r : Except Err (List Str)) => match r with
    | .ok l => l.all fun x => numerals.contains (parseString x).1
    | _ => false
  ok (substituteHarmonic p false) && ok (substituteMinorForMajor p false) && ok (substituteMajorForMinor p false) &&
  ok (substituteDimForDim p false) && ok (substituteDimForDom p false) && ok (substituteHarmonic p true) &&
  ok (substituteMinorForMajor p true) && ok (substituteMajorForMinor p true) && ok (substituteDimForDim p true) &&
  ok (substituteDimForDom p true) && ok (substitute 1 p)
def ruleSuffixes : List Str := ["", "7", "m", "M", "m7", "M7", "dim", "dim7"].map String.toList
theorem outputs_well_formed : ∀ num ∈ numerals, ∀ sf ∈ ruleSuffixes, ∀ a ∈ [(-2 : Int), -1, 0, 1, 2],
    outputsWellFormed (accPrefix a ++ num ++ sf) = true := by decide +kernel

/-- each rule answers only for the chords it documents (ignore_suffix off): for EVERY string, outside the documented
    suffixes / unsuffixed degrees the answer is the empty list -/
def DocMinor (p : Str) : Prop :=
  (parseString p).2.2 = lit "m" ∨ (parseString p).2.2 = lit "m7" ∨
    ((parseString p).2.2 = [] ∧ [lit "II", lit "III", lit "VI"].contains (parseString p).1)
def DocMajor (p : Str) : Prop :=
  (parseString p).2.2 = lit "M" ∨ (parseString p).2.2 = lit "M7" ∨
    ((parseString p).2.2 = [] ∧ [lit "I", lit "IV", lit "V"].contains (parseString p).1)
def DocDim (p : Str) : Prop :=
  (parseString p).2.2 = lit "dim7" ∨ (parseString p).2.2 = lit "dim" ∨ ((parseString p).2.2 = [] ∧ (parseString p).1 = lit "VII")
def DocHarmonic (p : Str) : Prop := (parseString p).2.2 = [] ∨ (parseString p).2.2 = lit "7"

theorem minor_for_major_only_documented (p : Str) (h : ¬ DocMinor p) : substituteMinorForMajor p false = .ok [] := by
  unfold DocMinor at h
  unfold substituteMinorForMajor
  simp only [Bool.false_eq_true, or_false]
  rw [if_neg h]; rfl
theorem major_for_minor_only_documented (p : Str) (h : ¬ DocMajor p) : substituteMajorForMinor p false = .ok [] := by
  unfold DocMajor at h
  unfold substituteMajorForMinor
  simp only [Bool.false_eq_true, or_false]
  rw [if_neg h]; rfl
theorem dimGuard_false (p : Str) (h : ¬ DocDim p) : dimGuard (parseString p).1 (parseString p).2.2 false = false := by
  unfold DocDim at h
  simp only [dimGuard, Bool.false_eq_true, or_false, decide_eq_false_iff_not]
  exact h
theorem dim_for_dim_only_documented (p : Str) (h : ¬ DocDim p) : substituteDimForDim p false = .ok [] := by
  unfold substituteDimForDim
  simp only [dimGuard_false p h, Bool.false_eq_true, if_false]; rfl
theorem dim_for_dom_only_documented (p : Str) (h : ¬ DocDim p) : substituteDimForDom p false = .ok [] := by
  unfold substituteDimForDom
  simp only [dimGuard_false p h, Bool.false_eq_true, if_false]; rfl
theorem harmonic_only_documented (p : Str) (h : ¬ DocHarmonic p) : substituteHarmonic p false = .ok [] := by
  unfold DocHarmonic at h
  unfold substituteHarmonic
  simp only [Bool.false_eq_true, or_false]
  rw [if_neg h]; rfl
/-- the guards are not vacuous either way -/
example : ¬ DocDim (lit "V") ∧ DocDim (lit "VII") ∧ DocDim (lit "bIIdim7") ∧ ¬ DocMinor (lit "IVM7") ∧ DocMinor (lit "Vm7") := by
  unfold DocDim DocMinor; decide +kernel

/-- non-vacuity -/
example : toChords [lit "bbVIIdim7", lit "iim7"] (lit "Eb") =
    .ok [["Dbb", "Fbb", "Abbb", "Cbbb"].map String.toList, ["F", "Ab", "C", "Eb"].map String.toList] := by decide +kernel
example : Progressions.determine (["G", "B", "D", "F"].map String.toList) (lit "C") true = .ok [lit "V7"] := by decide +kernel
example : substituteMinorForMajor (lit "bIIm") false = .ok [lit "bIVM"] := by decide +kernel

end Mingus.Props.C08
