import Mingus.Props.C18
import Mathlib.Algebra.Order.Field.Rat
/-
  C18 — the parallel scheduler inside its working domain: bars that sound together with one common rhythm, filling their
  meter exactly in the scheduler's own float arithmetic, no tempo-changing containers.  `playBars_equal_rhythm`: the trace
  is, step by step, the note-ons of every bar's entry (in bar order, own channel and velocity), one sleep of the step's
  length, the matching note-offs; observers receive exactly that; the tempo is returned.  (Outside this domain the
  scheduler is wrong: `parallel_counterexample`, known finding C18-parallel-scheduler.)
-/
namespace Mingus.Props.C18
open Mingus Mingus.Seq Mingus.Containers

def entryAt (bars : List SBar) (n x : Nat) : SEntry := ((bars.getD n default).entries).getD x default

/-- the scheduler's beat cursor after `i` steps of the common rhythm -/
def tickAt (rh : List (Rat × Rat)) : Nat → Rat
  | 0 => 0
  | i + 1 => F64.add (tickAt rh i) (F64.div 1 (rh.getD i (0, 1)).2)

structure EqualRhythm (bars : List SBar) (chans : List Int) (rh : List (Rat × Rat)) : Prop where
  nonempty : bars ≠ []
  chans_len : bars.length ≤ chans.length
  rhythm : ∀ b ∈ bars, b.entries.map (fun e => (e.start, e.value)) = rh
  plain : ∀ b ∈ bars, ∀ e ∈ b.entries, e.bpm = none ∧ (∀ n ∈ ncNotes e.content, okN n)
  values : ∀ p ∈ rh, p.2 ≠ 0

theorem entries_length {bars chans rh} (h : EqualRhythm bars chans rh) (b : SBar) (hb : b ∈ bars) : b.entries.length = rh.length := by
  have := congrArg List.length (h.rhythm b hb); simpa using this

theorem entryAt_spec {bars chans rh} (h : EqualRhythm bars chans rh) (n x : Nat) (hn : n < bars.length) (hx : x < rh.length) :
    ∃ b, bars[n]? = some b ∧ b ∈ bars ∧ b.entries[x]? = some (entryAt bars n x) ∧
      ((entryAt bars n x).start, (entryAt bars n x).value) = rh.getD x (0, 1) ∧ entryAt bars n x ∈ b.entries := by
  have hb : bars[n]? = some bars[n] := List.getElem?_eq_getElem hn
  have hmem : bars[n] ∈ bars := List.getElem_mem hn
  have hl := entries_length h bars[n] hmem
  have hx' : x < bars[n].entries.length := by omega
  have he : bars[n].entries[x]? = some bars[n].entries[x] := List.getElem?_eq_getElem hx'
  have hat : entryAt bars n x = bars[n].entries[x] := by
    simp [entryAt, List.getD_eq_getElem?_getD, hb, he]
  refine ⟨bars[n], hb, hmem, by rw [hat]; exact he, ?_, by rw [hat]; exact List.getElem_mem hx'⟩
  have := congrArg (fun l => l.getD x (0, 1)) (h.rhythm bars[n] hmem)
  simp only [List.getD_eq_getElem?_getD, List.getElem?_map, he, Option.map_some, Option.getD_some] at this
  rw [hat]; simpa [List.getD_eq_getElem?_getD] using this

/-! ### starting everything that is due -/

def playingOf (bars : List SBar) (chans : List Int) (p : Nat × Nat) : Playing :=
  ⟨(entryAt bars p.1 p.2).value, (entryAt bars p.1 p.2).content, chans.getD p.1 0, p.1⟩

theorem startDue_all (bars : List SBar) (chans : List Int) (tick : Rat) (ps : List (Nat × Nat)) :
    ∀ (st : St) (bpm : Int) (pn : List (Rat × Nat)) (pl : List Playing), WF st →
      (∀ p ∈ ps, ∃ b ch, bars[p.1]? = some b ∧ b.entries[p.2]? = some (entryAt bars p.1 p.2) ∧
        (entryAt bars p.1 p.2).start ≤ tick ∧ chans[p.1]? = some ch ∧ (entryAt bars p.1 p.2).bpm = none ∧
        ∀ n ∈ ncNotes (entryAt bars p.1 p.2).content, okN n) →
      ∃ st', startDue bars chans tick ps (st, bpm, pn, pl) =
          .ok (st', bpm, pn ++ ps.map (fun p => ((entryAt bars p.1 p.2).value, p.1)), pl ++ ps.map (playingOf bars chans)) ∧
        Ext st st' (ps.flatMap fun p => (ncNotes (entryAt bars p.1 p.2).content).map onE) := by
  induction ps with
  | nil => intro st bpm pn pl _ _; exact ⟨st, by simp [startDue, pure, Except.pure], by simpa using Ext.refl st⟩
  | cons p ps ih =>
    intro st bpm pn pl hw h
    obtain ⟨n, x⟩ := p
    obtain ⟨b, ch, hb, he, hs, hc, hbpm, hok⟩ := h (n, x) (by simp)
    obtain ⟨s1, e1, x1⟩ := playNC_spec st (entryAt bars n x).content hok hw
    obtain ⟨s2, e2, x2⟩ := ih s1 bpm (pn ++ [((entryAt bars n x).value, n)]) (pl ++ [⟨(entryAt bars n x).value, (entryAt bars n x).content, ch, n⟩])
      (x1.wf hw) (fun q hq => h q (by simp [hq]))
    refine ⟨s2, ?_, ?_⟩
    · simp only [startDue, hb, he, hs, if_true, hc, bind, Except.bind, e1, hbpm]
      rw [e2]
      have hc' : chans[n]? = some ch := hc
      simp [playingOf, List.getD_eq_getElem?_getD, hc', List.append_assoc]
    · simpa using Ext.trans x1 x2

/-! ### stopping everything that has run its length -/

theorem tiny_pos : ¬ ((0 : Rat) ≥ tiny) := by decide +kernel

theorem sub_self_zero (x : Rat) : F64.sub x x = 0 := by
  have : x - x = 0 := by exact sub_self x
  simp [F64.sub, F64.round, this]

theorem settle_all (bars : List SBar) (shortest : Rat) (pl : List Playing) :
    ∀ (st : St) (cur : List Nat) (keep : List Playing), WF st →
      (∀ p ∈ pl, p.length = shortest ∧ ∀ n ∈ ncNotes p.nc, okN n) →
      ∃ st', settle bars shortest pl (st, cur, keep) = .ok (st', pl.foldl (fun c p => bump bars c p.n) cur, keep) ∧
        Ext st st' (pl.flatMap fun p => (ncNotes p.nc).map offE) := by
  induction pl with
  | nil => intro st cur keep _ _; exact ⟨st, by simp [settle, pure, Except.pure], by simpa using Ext.refl st⟩
  | cons p ps ih =>
    intro st cur keep hw h
    obtain ⟨hl, hok⟩ := h p (by simp)
    obtain ⟨s1, e1, x1⟩ := stopNC_spec st p.nc hok hw
    obtain ⟨s2, e2, x2⟩ := ih s1 (bump bars cur p.n) keep (x1.wf hw) (fun q hq => h q (by simp [hq]))
    refine ⟨s2, ?_, by simpa using Ext.trans x1 x2⟩
    simp only [settle, hl, sub_self_zero, tiny_pos, if_false, bind, Except.bind, e1]
    rw [e2]; rfl

/-- bumping every bar's cursor once, in order -/
theorem bump_all (bars : List SBar) (len i : Nat) (hlen : ∀ b ∈ bars, b.entries.length = len) :
    (List.range bars.length).foldl (fun c n => bump bars c n) (List.replicate bars.length i) =
      List.replicate bars.length (if i + 1 < len then i + 1 else i) := by
  have key : ∀ (j : Nat), j ≤ bars.length →
      (List.range j).foldl (fun c n => bump bars c n) (List.replicate bars.length i) =
        List.replicate j (if i + 1 < len then i + 1 else i) ++ List.replicate (bars.length - j) i := by
    intro j
    induction j with
    | zero => intro _; simp
    | succ j ih =>
      intro hj
      rw [List.range_succ, List.foldl_append, ih (by omega)]
      simp only [List.foldl_cons, List.foldl_nil]
      have hjb : j < bars.length := by omega
      have hb : bars[j]? = some bars[j] := List.getElem?_eq_getElem hjb
      have hl := hlen bars[j] (List.getElem_mem hjb)
      have hc : (List.replicate j (if i + 1 < len then i + 1 else i) ++ List.replicate (bars.length - j) i)[j]? = some i := by
        rw [List.getElem?_append_right (by simp)]
        simp only [List.length_replicate, Nat.sub_self]
        rw [List.getElem?_replicate]; simp; omega
      unfold bump
      simp only [hc, hb, hl]
      by_cases hlt : i + 1 < len
      · simp only [hlt, if_true]
        have : bars.length - j = (bars.length - (j + 1)) + 1 := by omega
        rw [this, List.replicate_succ]
        rw [List.set_append_right _ _ (by simp)]
        simp [List.replicate_succ']
      · simp only [hlt, if_false]
        have : bars.length - j = (bars.length - (j + 1)) + 1 := by omega
        rw [this, List.replicate_succ]
        simp [List.replicate_succ']
  have := key bars.length (Nat.le_refl _)
  simpa using this

/-! ### the loop -/

theorem maxLen_const (v : Rat) (l : List Rat) (hne : l ≠ []) (h : ∀ x ∈ l, x = v) : maxLen l = v := by
  have key : ∀ (as : List Rat) (m : Rat), m = v → (∀ x ∈ as, x = v) → as.foldl (fun m x => if x > m then x else m) m = v := by
    intro as
    induction as with
    | nil => intro m hm _; simpa using hm
    | cons b bs ih =>
      intro m hm hb
      simp only [List.foldl_cons]
      have hbv : b = v := hb b (by simp)
      rw [hbv, hm]
      simp only [gt_iff_lt, lt_self_iff_false, if_false]
      exact ih v rfl (fun x hx => hb x (by simp [hx]))
  cases l with
  | nil => exact absurd rfl hne
  | cons a as =>
    unfold maxLen
    simp only [List.headD_cons]
    exact key (a :: as) a (h a (by simp)) h

/-- what sounds at step `i`: every bar's `i`-th entry, in bar order -/
def colTrace (bars : List SBar) (bpm : Int) (v : Rat) (i : Nat) : List SEv :=
  ((List.range bars.length).flatMap fun n => (ncNotes (entryAt bars n i).content).map onE) ++
  [.sleep (F64.mul (F64.div 60 bpm) (F64.div 4 v))] ++
  ((List.range bars.length).flatMap fun n => (ncNotes (entryAt bars n i).content).map offE)

theorem zip_range_replicate (k i : Nat) : List.zip (List.range (List.replicate k i).length) (List.replicate k i) =
    (List.range k).map fun n => (n, i) := by
  simp only [List.length_replicate]
  apply List.ext_getElem
  · simp
  · intro n h1 h2
    simp

theorem loop_equal_rhythm {bars : List SBar} {chans : List Int} {rh : List (Rat × Rat)} (h : EqualRhythm bars chans rh)
    (bpm : Int) (hbpm : bpm ≠ 0) (len0 : Rat)
    (hdue : ∀ i, i < rh.length → (rh.getD i (0, 1)).1 ≤ tickAt rh i ∧ tickAt rh i < len0)
    (hfull : ¬ (tickAt rh rh.length < len0)) :
    ∀ (m i : Nat), i + m = rh.length → ∀ (fuel : Nat), m < fuel → ∀ (st : St) (cur : List Nat), WF st →
      (i < rh.length → cur = List.replicate bars.length i) →
      ∃ st', barsLoop bars chans len0 fuel st bpm (tickAt rh i) cur [] = .ok (st', some bpm, []) ∧
        Ext st st' ((List.range m).flatMap fun j => colTrace bars bpm (rh.getD (i + j) (0, 1)).2 (i + j)) := by
  intro m
  induction m with
  | zero =>
    intro i hi fuel hf st cur hw _
    have : i = rh.length := by omega
    subst this
    cases fuel with
    | zero => omega
    | succ f =>
      refine ⟨st, ?_, by simpa using Ext.refl st⟩
      simp only [barsLoop, hfull, not_false_eq_true, if_true, pure, Except.pure]
  | succ m ih =>
    intro i hi fuel hf st cur hw hcur
    have hilt : i < rh.length := by omega
    have hc := hcur hilt
    subst hc
    cases fuel with
    | zero => omega
    | succ f =>
      obtain ⟨hd1, hd2⟩ := hdue i hilt
      have hk : 0 < bars.length := List.length_pos_iff.2 h.nonempty
      -- everything is due
      have hps : ∀ p ∈ (List.range bars.length).map (fun n => (n, i)), ∃ b ch, bars[p.1]? = some b ∧
          b.entries[p.2]? = some (entryAt bars p.1 p.2) ∧ (entryAt bars p.1 p.2).start ≤ tickAt rh i ∧ chans[p.1]? = some ch ∧
          (entryAt bars p.1 p.2).bpm = none ∧ ∀ n ∈ ncNotes (entryAt bars p.1 p.2).content, okN n := by
        intro p hp
        obtain ⟨n, hn, rfl⟩ := List.mem_map.1 hp
        have hn' : n < bars.length := by simpa using hn
        obtain ⟨b, hb, hbm, he, hrh, hmem⟩ := entryAt_spec h n i hn' hilt
        have hch : n < chans.length := Nat.lt_of_lt_of_le hn' h.chans_len
        refine ⟨b, chans[n], hb, he, ?_, List.getElem?_eq_getElem hch, (h.plain b hbm _ hmem).1, (h.plain b hbm _ hmem).2⟩
        have : (entryAt bars n i).start = (rh.getD i (0, 1)).1 := by rw [← hrh]
        rw [this]; exact hd1
      obtain ⟨s1, e1, x1⟩ := startDue_all bars chans (tickAt rh i) _ st bpm [] [] hw hps
      have hval : ∀ n, n < bars.length → (entryAt bars n i).value = (rh.getD i (0, 1)).2 := by
        intro n hn
        obtain ⟨b, hb, hbm, he, hrh, hmem⟩ := entryAt_spec h n i hn hilt
        rw [← hrh]
      set v := (rh.getD i (0, 1)).2 with hv
      have hvne : v ≠ 0 := by
        have hmem : rh.getD i (0, 1) ∈ rh := by
          rw [List.getD_eq_getElem?_getD, List.getElem?_eq_getElem hilt]; simp
        exact h.values _ hmem
      have hpn : ((List.range bars.length).map fun n => (n, i)).map (fun p => ((entryAt bars p.1 p.2).value, p.1)) ≠ [] := by
        simp; exact h.nonempty
      have hshort : maxLen ((([] : List (Rat × Nat)) ++ ((List.range bars.length).map fun n => (n, i)).map
          (fun p => ((entryAt bars p.1 p.2).value, p.1))).map (·.1)) = v := by
        apply maxLen_const
        · simp; exact h.nonempty
        · intro x hx
          simp only [List.nil_append, List.map_map, List.mem_map, List.mem_range, Function.comp] at hx
          obtain ⟨n, hn, rfl⟩ := hx
          exact hval n hn
      have hplay : ∀ p ∈ ([] : List Playing) ++ ((List.range bars.length).map fun n => (n, i)).map (playingOf bars chans),
          p.length = v ∧ ∀ n ∈ ncNotes p.nc, okN n := by
        intro p hp
        simp only [List.nil_append, List.map_map, List.mem_map, List.mem_range, Function.comp] at hp
        obtain ⟨n, hn, rfl⟩ := hp
        obtain ⟨b, hb, hbm, he, hrh, hmem⟩ := entryAt_spec h n i hn hilt
        exact ⟨hval n hn, (h.plain b hbm _ hmem).2⟩
      have x2 := emit_ext s1 (.sleep (F64.mul (F64.div 60 bpm) (F64.div 4 v))) (x1.wf hw)
      obtain ⟨s3, e3, x3⟩ := settle_all bars v _ (emit s1 (.sleep (F64.mul (F64.div 60 bpm) (F64.div 4 v))))
        (List.replicate bars.length i) [] (x2.wf (x1.wf hw)) hplay
      have hlen : ∀ b ∈ bars, b.entries.length = rh.length := fun b hb => entries_length h b hb
      have hcur' : (([] : List Playing) ++ ((List.range bars.length).map fun n => (n, i)).map (playingOf bars chans)).foldl
          (fun c p => bump bars c p.n) (List.replicate bars.length i) =
          List.replicate bars.length (if i + 1 < rh.length then i + 1 else i) := by
        rw [List.nil_append, List.map_map, List.foldl_map]
        exact bump_all bars rh.length i hlen
      rw [hcur'] at e3
      obtain ⟨s4, e4, x4⟩ := ih (i + 1) (by omega) f (by omega) s3
        (List.replicate bars.length (if i + 1 < rh.length then i + 1 else i)) (x3.wf (x2.wf (x1.wf hw)))
        (by intro hlt; rw [if_pos hlt])
      refine ⟨s4, ?_, ?_⟩
      · simp only [barsLoop, hd2, not_true_eq_false, if_false, bind, Except.bind]
        rw [zip_range_replicate, e1]
        dsimp only
        rw [if_neg hbpm]
        have hnn : ¬ (([] : List (Rat × Nat)) ++ ((List.range bars.length).map fun n => (n, i)).map
            (fun p => ((entryAt bars p.1 p.2).value, p.1)) = [] ∧
            ([] : List Playing) ++ ((List.range bars.length).map fun n => (n, i)).map (playingOf bars chans) = []) := by
          intro hh; exact hpn (by simpa using hh.1)
        simp only [hnn, if_false]
        have hne2 : ([] : List (Rat × Nat)) ++ ((List.range bars.length).map fun n => (n, i)).map
            (fun p => ((entryAt bars p.1 p.2).value, p.1)) ≠ [] := by simpa using hpn
        simp only [hne2, ne_eq, not_false_eq_true, if_true, pure, Except.pure, hshort, hvne, if_false, e3]
        have ht : F64.add (tickAt rh i) (F64.div 1 v) = tickAt rh (i + 1) := rfl
        rw [ht]
        exact e4
      · have total := ((x1.trans x2).trans x3).trans x4
        have hon : (((List.range bars.length).map fun n => (n, i)).flatMap fun p => (ncNotes (entryAt bars p.1 p.2).content).map onE) =
            (List.range bars.length).flatMap fun n => (ncNotes (entryAt bars n i).content).map onE := by
          rw [List.flatMap_map]
        have hoff : ((([] : List Playing) ++ ((List.range bars.length).map fun n => (n, i)).map (playingOf bars chans)).flatMap
            fun p => (ncNotes p.nc).map offE) =
            (List.range bars.length).flatMap fun n => (ncNotes (entryAt bars n i).content).map offE := by
          rw [List.nil_append, List.map_map, List.flatMap_map]; rfl
        rw [hon, hoff] at total
        have hgoal : ((List.range (m + 1)).flatMap fun j => colTrace bars bpm (rh.getD (i + j) (0, 1)).2 (i + j)) =
            colTrace bars bpm v i ++ (List.range m).flatMap fun j => colTrace bars bpm (rh.getD (i + 1 + j) (0, 1)).2 (i + 1 + j) := by
          rw [List.range_succ_eq_map, List.flatMap_cons, List.flatMap_map]
          simp only [Nat.add_zero]
          congr 1
          simp only [List.flatMap_def]
          congr 1
          apply List.map_congr_left
          intro j _
          have : i + (j + 1) = i + 1 + j := by omega
          simp only [Function.comp, Nat.succ_eq_add_one, this]
        rw [hgoal]
        simpa [colTrace, List.append_assoc] using total

theorem foldl_sum_ge (bars : List SBar) : ∀ (a : Nat), a ≤ bars.foldl (fun a b => a + b.entries.length) a := by
  induction bars with
  | nil => intro a; simp
  | cons b bs ih => intro a; simp only [List.foldl_cons]; exact Nat.le_trans (Nat.le_add_right _ _) (ih _)

/-- **play_Bars on bars with one common rhythm that fill their meter exactly** (in the scheduler's own float arithmetic:
    every entry is due when the cursor reaches it, and after the last entry the cursor has reached the bar length): the
    trace is, step by step, every bar's note-ons, one sleep, every bar's note-offs; observers receive exactly that; the
    tempo given is returned.  Any number of bars, any number of entries. -/
theorem playBars_equal_rhythm {bars : List SBar} {chans : List Int} {rh : List (Rat × Rat)} (h : EqualRhythm bars chans rh)
    (st : St) (hw : WF st) (bpm : Int) (hbpm : bpm ≠ 0)
    (hdue : ∀ i, i < rh.length → (rh.getD i (0, 1)).1 ≤ tickAt rh i ∧ tickAt rh i < (bars.headD default).length)
    (hfull : ¬ (tickAt rh rh.length < (bars.headD default).length)) :
    ∃ st', playBars st bars chans bpm = .ok (st', some bpm) ∧
      Ext st st' ((List.range rh.length).flatMap fun j => colTrace bars bpm (rh.getD j (0, 1)).2 j) := by
  cases hb : bars with
  | nil => exact absurd hb h.nonempty
  | cons b0 bs =>
    have x0 := notifyHigh_ext st
    have hmap : (bars.map fun _ => 0) = List.replicate bars.length 0 := by
      clear hdue hfull h
      induction bars with
      | nil => rfl
      | cons a as ih => simp [List.replicate_succ, ih]
    have hfuel : rh.length < 4 * (bars.foldl (fun a b => a + b.entries.length) 0) + 64 := by
      have h1 : b0.entries.length = rh.length := entries_length h b0 (by rw [hb]; simp)
      have h2 : b0.entries.length ≤ bars.foldl (fun a b => a + b.entries.length) 0 := by
        rw [hb]; simp only [List.foldl_cons, Nat.zero_add]; exact foldl_sum_ge bs _
      omega
    have hhead : (bars.headD default).length = b0.length := by rw [hb]; rfl
    rw [hhead] at hdue hfull
    obtain ⟨s1, e1, x1⟩ := loop_equal_rhythm h bpm hbpm b0.length hdue hfull rh.length 0 (by omega) _ hfuel (notifyHigh st)
      (List.replicate bars.length 0) (x0.wf hw) (fun _ => rfl)
    refine ⟨s1, ?_, ?_⟩
    · rw [← hb]
      unfold playBars
      rw [hb]
      simp only [hbpm, if_false, bind, Except.bind]
      rw [← hb, hmap]
      have e1' := e1
      simp only [tickAt] at e1'
      rw [e1']
      simp [finalLoop, pure, Except.pure]
    · have := x0.trans x1
      rw [← hb]
      simpa using this

/-- non-vacuity: two voices, three entries (a chord, a rest, a note), 3/4 — the hypotheses hold and the theorem's trace is
    the model's trace -/
def v1 : SBar := ⟨3/4, [⟨0, 4, some [c4], none⟩, ⟨1/4, 4, none, none⟩, ⟨1/2, 4, some [c4], none⟩]⟩
def v2 : SBar := ⟨3/4, [⟨0, 4, some [e4], none⟩, ⟨1/4, 4, some [e4], none⟩, ⟨1/2, 4, some [], none⟩]⟩
example : (tickAt [(0, 4), (1/4, 4), (1/2, 4)] 3 < (3/4 : Rat)) = False ∧
    (playBars {} [v1, v2] [1, 2] 120).toOption.map (fun r => (r.1.hooks, r.2)) =
      some ((List.range 3).flatMap (fun j => colTrace [v1, v2] 120 4 j), some 120) := by
  decide +kernel

end Mingus.Props.C18
