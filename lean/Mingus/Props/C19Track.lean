import Mingus.Props.C19Bar
/-
  C19 — whole LilyPond tracks read back.

  `readBarFull` reads a bar as `from_Bar` writes it with any of the four flag combinations: `{ `, an optional `\time c/u `,
  an optional `\key k \mode `, the entries, `}`.  `readTrackLy` reads `from_Track`'s text: `{ `, the bars each followed by a
  blank (a bar ends at its MATCHING brace - tuplet blocks nest), `}`.
  `lyBar_reads_full`: any bar in one of the 30 keys, any non-negative meter numbers, any number of entries of the
  vocabulary, reads back as (the time iff shown, the key's tonic and mode iff shown, the entries).
  `lyTrack_reads`: a track of ANY number of such bars reads back bar by bar, key and time shown exactly where they change
  (C major and 4/4 before the first bar).
-/
namespace Mingus.Props.C19
open Mingus Mingus.Export Mingus.Containers

/-! ### brace levels -/

/-- scanning from brace depth `d ≥ 1` without ever closing the enclosing group; the depth reached -/
def lvl : Str → Nat → Option Nat
  | [], d => some d
  | c :: cs, d =>
    if c = '{' then lvl cs (d + 1)
    else if c = '}' then (if d ≤ 1 then none else lvl cs (d - 1))
    else lvl cs d

theorem lvl_append (a b : Str) : ∀ d, lvl (a ++ b) d = (lvl a d).bind (lvl b) := by
  induction a with
  | nil => intro d; rfl
  | cons c cs ih =>
    intro d
    simp only [List.cons_append, lvl]
    split
    · exact ih _
    · split
      · split
        · rfl
        · exact ih _
      · exact ih _

abbrev nobrace (c : Char) : Prop := c ≠ '{' ∧ c ≠ '}'

theorem lvl_nobrace (a : Str) (h : ∀ c ∈ a, nobrace c) : ∀ d, lvl a d = some d := by
  induction a with
  | nil => intro d; rfl
  | cons c cs ih =>
    intro d
    have hc := h c (by simp)
    simp only [lvl, hc.1, hc.2, if_false]
    exact ih (fun x hx => h x (by simp [hx])) d

/-- a scan that succeeds from depth `d` succeeds from any greater depth, shifted -/
theorem lvl_add (a : Str) : ∀ (d d' k : Nat), lvl a d = some d' → lvl a (d + k) = some (d' + k) := by
  induction a with
  | nil => intro d d' k h; simp only [lvl, Option.some.injEq] at h ⊢; omega
  | cons c cs ih =>
    intro d d' k h
    simp only [lvl] at h ⊢
    split at h
    · rename_i hc
      simp only [hc, if_true]
      have := ih (d + 1) d' k h
      have e : d + k + 1 = d + 1 + k := by omega
      rw [e]; exact this
    · rename_i hc1
      split at h
      · rename_i hc2
        split at h
        · cases h
        · rename_i hd
          have hd' : ¬ (d + k ≤ 1) := by omega
          simp only [hc1, hc2, if_false, if_true, hd']
          have := ih (d - 1) d' k h
          have e : d + k - 1 = d - 1 + k := by omega
          rw [e]; exact this
      · rename_i hc2
        simp only [hc1, hc2, if_false]
        exact ih d d' k h

theorem lvl_shift (a : Str) (d d' : Nat) (h : lvl a d = some d') (e : Nat) (he : d ≤ e) : lvl a e = some (d' + (e - d)) := by
  have := lvl_add a d d' (e - d) h
  have e1 : d + (e - d) = e := by omega
  rw [e1] at this; exact this

/-- the text of one `{ … }` group starting at depth `d` (0 before its opening brace), and what follows it -/
def takeGroup : Str → Nat → Option (Str × Str)
  | [], _ => none
  | c :: cs, d =>
    if c = '{' then (takeGroup cs (d + 1)).map fun r => (c :: r.1, r.2)
    else if c = '}' then (if d ≤ 1 then some ([c], cs) else (takeGroup cs (d - 1)).map fun r => (c :: r.1, r.2))
    else (takeGroup cs d).map fun r => (c :: r.1, r.2)

theorem takeGroup_close (mid rest : Str) : ∀ d, 1 ≤ d → lvl mid d = some 1 →
    takeGroup (mid ++ '}' :: rest) d = some (mid ++ ['}'], rest) := by
  induction mid with
  | nil =>
    intro d hd h
    simp only [lvl, Option.some.injEq] at h
    subst h
    simp [takeGroup]
  | cons c cs ih =>
    intro d hd h
    simp only [lvl] at h
    simp only [List.cons_append, takeGroup]
    split at h
    · rename_i hc
      simp only [hc, if_true, ih (d + 1) (by omega) h, Option.map_some]
    · split at h
      · rename_i hc1 hc2
        split at h
        · cases h
        · rename_i hd1
          subst hc2
          have hb : ¬ ('}' = '{') := by decide
          simp only [hb, if_false, if_true, hd1, ih (d - 1) (by omega) h, Option.map_some]
      · rename_i hc1 hc2
        simp only [hc1, hc2, if_false, ih d hd h, Option.map_some]

theorem takeGroup_bar (mid rest : Str) (h : lvl mid 1 = some 1) :
    takeGroup ('{' :: (mid ++ '}' :: rest)) 0 = some ('{' :: (mid ++ ['}']), rest) := by
  simp only [takeGroup, if_true, takeGroup_close mid rest 1 (by omega) h, Option.map_some]

/-! ### what the tokens of an entry contain -/

theorem lyNC_nobrace (c : Option NC) (h : ∀ n ∈ c.getD [], GoodNote n) (x : Str) (hx : lyNC c none false = .ok x) :
    ∀ ch ∈ x, nobrace ch := by
  have hr : ∀ ch ∈ lit "r", nobrace ch := by decide
  cases c with
  | none => simp only [lyNC, bind, Except.bind, pure, Except.pure, Bool.false_eq_true, if_false, List.append_nil, Except.ok.injEq] at hx; subst hx; exact hr
  | some ns =>
    cases ns with
    | nil => simp only [lyNC, bind, Except.bind, pure, Except.pure, Bool.false_eq_true, if_false, List.append_nil, Except.ok.injEq] at hx; subst hx; exact hr
    | cons n rest =>
      cases rest with
      | nil =>
        obtain ⟨y, h1, _, h3⟩ := readPitch_lyNote n (h n (by simp))
        simp only [lyNC, h1, bind, Except.bind, pure, Except.pure, Bool.false_eq_true, if_false, List.append_nil, Except.ok.injEq] at hx
        subst hx
        intro ch hc
        exact ⟨(h3 ch hc).2.2.2.2.2.1, (h3 ch hc).2.2.2.2.2.2⟩
      | cons m rest' =>
        obtain ⟨parts, h1, _, h3, _⟩ := mapM_lyNote (n :: m :: rest') h
        simp only [lyNC, h1, bind, Except.bind, pure, Except.pure, Bool.false_eq_true, if_false, List.append_nil, Except.ok.injEq] at hx
        subst hx
        intro ch hc
        simp only [List.mem_append] at hc
        rcases hc with (hc | hc) | hc
        · have : ch = '<' := by simpa [lit] using hc
          subst this; decide
        · rcases mem_intercalate parts ch hc with rfl | ⟨p, hp, hcp⟩
          · decide
          · exact ⟨(h3 p hp ch hcp).2.2.2.2.2.1, (h3 p hp ch hcp).2.2.2.2.2.2⟩
        · have : ch = '>' := by simpa [lit] using hc
          subst this; decide

theorem durText_nobrace : ∀ b ∈ bases, ∀ d ∈ [0, 1, 2], ∀ c ∈ baseText b ++ List.replicate d '.', nobrace c := by decide +kernel

/-- the token of an entry of the vocabulary has no brace and does not start with a backslash -/
theorem tok_extra (e : LEntry) (hg : ∀ n ∈ e.content.getD [], GoodNote n) (b : Rat) (d : Nat) (r : Nat × Nat)
    (hv : Vocab e.value b d r) (tok : Str) (ht : lyNC e.content (some e.value) false = .ok tok) :
    (∀ ch ∈ tok.head?, ch ≠ '\\') ∧ (∀ ch ∈ tok, nobrace ch) := by
  obtain ⟨x, h1, _, _⟩ := readNotes_lyNC e.content hg
  obtain ⟨_, c2, c3⟩ := lyNC_closed e.content hg x h1
  have c4 := lyNC_nobrace e.content hg x h1
  have key : ∃ dt, lyDuration e.value = .ok dt ∧ ∀ c ∈ dt, nobrace c := by
    rcases hv with ⟨hb, hd, hval, _⟩ | ⟨hb, hd, hr, hval⟩
    · exact ⟨_, by rw [hval]; exact (duration_table.1 b hb d hd).1, durText_nobrace b hb d hd⟩
    · subst hd
      have hb' : b ∈ bases := List.mem_of_mem_drop hb
      have := durText_nobrace b hb' 0 (by simp)
      simp only [List.replicate_zero, List.append_nil] at this
      exact ⟨_, by rw [hval]; exact (duration_table.2 b hb r hr).1, this⟩
  obtain ⟨dt, k1, k2⟩ := key
  have hly : lyNC e.content (some e.value) false = .ok (x ++ dt) := by
    unfold lyNC at h1 ⊢
    simp only [bind, Except.bind, pure, Except.pure, Bool.false_eq_true, if_false, List.append_nil] at h1 ⊢
    split at h1
    · cases h1
    · rename_i body hbody
      simp only [Except.ok.injEq] at h1
      subst h1
      simp only [hbody, k1]
  have : tok = x ++ dt := by rw [hly] at ht; exact (Except.ok.inj ht).symm
  subst this
  refine ⟨?_, ?_⟩
  · intro ch hc
    cases x with
    | nil => exact absurd rfl c2
    | cons a as => simp at hc; subst hc; exact (c3 _ (by simp)).2
  · intro ch hc
    rcases List.mem_append.1 hc with hc | hc
    · exact c4 ch hc
    · exact k2 ch hc

theorem showNat_nobrace (n : Nat) : ∀ c ∈ Note.showNat n, nobrace c := by
  obtain ⟨n1, _, _, _⟩ := C10.digitsF_spec (n + 1) n (by omega)
  intro c hc
  have := digit_plain2 c (List.all_eq_true.1 n1 c hc)
  exact ⟨this.2.2.2.1, this.2.2.1⟩

/-! ### the body again: first token and brace levels -/

/-- the body of a bar, from any state of the tuplet bookkeeping: its first token is neither `\time` nor `\key`, and its
    braces close exactly the tuplet block that is open (if any) and every block it opens -/
theorem body_shape (es : List LEntry) : ∀ (xs : List REntry), List.Forall₂ Reads es xs →
    ∀ (latest : Nat × Nat) (changed : Bool),
    ∃ s, lyEntries es latest changed = .ok s ∧ (nextTok s false).1 ≠ lit "\\time" ∧ (nextTok s false).1 ≠ lit "\\key" ∧
      lvl s (if changed then 2 else 1) = some 1 := by
  induction es with
  | nil =>
    intro xs hxs latest changed
    cases hxs
    refine ⟨if changed then lit "}" else [], rfl, ?_, ?_, ?_⟩ <;> cases changed <;> decide
  | cons e es ih =>
    intro xs hxs latest changed
    cases hxs with
    | cons hx hrest =>
      rename_i x xs'
      obtain ⟨xn, ⟨xb, xd⟩, xr⟩ := x
      obtain ⟨hg, hv, hnotes⟩ := hx
      simp only at hv hnotes
      obtain ⟨tok, p, t1, t2, t3, t4, t5, t6, t7, t8⟩ := entry_tok e hg _ _ _ hv
      obtain ⟨u1, u2⟩ := tok_extra e hg _ _ _ hv tok t1
      obtain ⟨b, d, a, n⟩ := p
      simp only at t3
      subst t3
      by_cases hsame : (a, n) = latest
      · obtain ⟨rest, r1, _, _, r4⟩ := ih xs' hrest latest changed
        refine ⟨tok ++ ' ' :: rest, ?_, ?_, ?_, ?_⟩
        · simp only [lyEntries, t2, t1, bind, Except.bind, hsame, if_true, r1, pure, Except.pure, lit]
          simp
        · rw [nextTok_append tok rest false t5]
          intro heq
          cases tok with
          | nil => exact t8 rfl
          | cons c cs => exact u1 c (by simp) (by have := congrArg List.head? heq; simpa [lit] using this)
        · rw [nextTok_append tok rest false t5]
          intro heq
          cases tok with
          | nil => exact t8 rfl
          | cons c cs => exact u1 c (by simp) (by have := congrArg List.head? heq; simpa [lit] using this)
        · rw [lvl_append, lvl_nobrace tok u2]
          simp only [Option.bind, lvl]
          have h1 : ¬ (' ' = '{') := by decide
          have h2 : ¬ (' ' = '}') := by decide
          simp only [h1, h2, if_false]
          exact r4
      · obtain ⟨rest, r1, _, _, r4⟩ := ih xs' hrest (a, n) true
        let pre : Str := if changed then lit "}" else []
        refine ⟨pre ++ (lit "\\times" ++ ' ' :: ((Note.showNat n ++ '/' :: Note.showNat a) ++ ' ' :: (('{' :: tok) ++ ' ' :: rest))), ?_, ?_, ?_, ?_⟩
        · simp only [lyEntries, t2, t1, bind, Except.bind, hsame, if_false, r1, pure, Except.pure, pre]
          cases changed <;> simp [lit]
        · have hs : scan (pre ++ lit "\\times") false = some false := by cases changed <;> decide
          have e1 : pre ++ (lit "\\times" ++ ' ' :: ((Note.showNat n ++ '/' :: Note.showNat a) ++ ' ' :: (('{' :: tok) ++ ' ' :: rest))) =
              (pre ++ lit "\\times") ++ ' ' :: ((Note.showNat n ++ '/' :: Note.showNat a) ++ ' ' :: (('{' :: tok) ++ ' ' :: rest)) := by
            simp [List.append_assoc]
          rw [e1, nextTok_append _ _ false hs]
          cases changed <;> simp [pre, lit]
        · have hs : scan (pre ++ lit "\\times") false = some false := by cases changed <;> decide
          have e1 : pre ++ (lit "\\times" ++ ' ' :: ((Note.showNat n ++ '/' :: Note.showNat a) ++ ' ' :: (('{' :: tok) ++ ' ' :: rest))) =
              (pre ++ lit "\\times") ++ ' ' :: ((Note.showNat n ++ '/' :: Note.showNat a) ++ ' ' :: (('{' :: tok) ++ ' ' :: rest)) := by
            simp [List.append_assoc]
          rw [e1, nextTok_append _ _ false hs]
          cases changed <;> simp [pre, lit]
        · -- `}`? then `\times n/a ` at depth 1, `{` opens, the token, a blank, the rest inside the block
          have hpre : lvl pre (if changed then 2 else 1) = some 1 := by cases changed <;> decide
          have htimes : ∀ c ∈ lit "\\times", nobrace c := by decide
          have hratio : ∀ c ∈ Note.showNat n ++ '/' :: Note.showNat a, nobrace c := by
            intro c hc
            simp only [List.mem_append, List.mem_cons] at hc
            rcases hc with hc | rfl | hc
            · exact showNat_nobrace n c hc
            · decide
            · exact showNat_nobrace a c hc
          have hsp : ∀ (X : Str) (d : Nat), lvl (' ' :: X) d = lvl X d := by
            intro X d
            have h1 : ¬ (' ' = '{') := by decide
            have h2 : ¬ (' ' = '}') := by decide
            simp only [lvl, h1, h2, if_false]
          rw [lvl_append, hpre]
          simp only [Option.bind]
          rw [lvl_append, lvl_nobrace _ htimes, Option.bind, hsp, lvl_append, lvl_nobrace _ hratio, Option.bind, hsp]
          have hopen : lvl ('{' :: tok ++ ' ' :: rest) 1 = lvl (tok ++ ' ' :: rest) 2 := by simp [lvl]
          rw [hopen, lvl_append, lvl_nobrace tok u2, Option.bind, hsp]
          exact r4

/-! ### a bar with its key and time prefix -/

/-- the tonic text of a key as `\key` writes it (no octave marks) -/
def keyTok (k : Str) : Str :=
  match k with
  | [] => []
  | l :: t => (lyNote ⟨upperChar l :: t, 4, 1, 64⟩ false false).toOption.getD []

theorem key_tok_table : ∀ k ∈ Keys.allKeys,
    (match k with | [] => none | l :: t => (lyNote ⟨upperChar l :: t, 4, 1, 64⟩ false false).toOption) = some (keyTok k) ∧
    scan (keyTok k) false = some false ∧ (∀ c ∈ keyTok k, nobrace c) ∧
    readPitch (keyTok k) = some (lowerChar (k.headD 'C'), k.drop 1, 3) ∧
    scan ('\\' :: modeOf k) false = some false ∧ (∀ c ∈ modeOf k, nobrace c) := by
  decide +kernel

def timePart (b : LBar) (st : Bool) : Str :=
  if st then lit "\\time" ++ ' ' :: ((Note.showInt b.count ++ '/' :: Note.showInt b.unit) ++ [' ']) else []
def keyPart (b : LBar) (sk : Bool) : Str :=
  if sk then lit "\\key" ++ ' ' :: (keyTok b.key ++ ' ' :: (('\\' :: modeOf b.key) ++ [' '])) else []

set_option maxRecDepth 4000 in
theorem lyBar_shape (b : LBar) (sk st : Bool) (hk : b.key ∈ Keys.allKeys) (body : Str)
    (hb : lyEntries b.entries (1, 1) false = .ok body) :
    lyBar b sk st = .ok ('{' :: ' ' :: (timePart b st ++ keyPart b sk ++ body ++ ['}'])) := by
  obtain ⟨k1, _⟩ := key_tok_table b.key hk
  unfold lyBar
  cases hkey : b.key with
  | nil => rw [hkey] at k1; simp at k1
  | cons l t =>
    rw [hkey] at k1
    simp only at k1
    cases hn : lyNote ⟨upperChar l :: t, 4, 1, 64⟩ false false with
    | error err => simp [hn, Except.toOption] at k1
    | ok tokk =>
      simp only [hn, Except.toOption, Option.some.injEq] at k1
      have hkt : keyTok (l :: t) = tokk := k1.symm
      cases sk <;> cases st <;>
        simp [hb, hn, bind, Except.bind, pure, Except.pure, timePart, keyPart, lit, hkey, hkt, List.append_assoc]

structure RBar where
  time : Option (Nat × Nat)
  key : Option ((Char × Str × Int) × Str)
  entries : List REntry

/-- the key (if any) and the entries -/
def readKeyBody (T : Option (Nat × Nat)) (inner : Str) : Option RBar :=
  let t3 := nextTok inner false
  let r2 : Option (Option ((Char × Str × Int) × Str) × Str) :=
    if t3.1 = lit "\\key" then
      (readPitch (nextTok t3.2 false).1).map fun p =>
        (some (p, (nextTok (nextTok t3.2 false).2 false).1), (nextTok (nextTok t3.2 false).2 false).2)
    else some (none, inner)
  r2.bind fun p2 => (readBody (p2.2.length + 1) p2.2 (1, 1)).map fun es => ⟨T, p2.1, es⟩

/-- the reader of one bar, with or without time and key -/
def readBarFull (s : Str) : Option RBar :=
  match s with
  | '{' :: ' ' :: rest =>
    if rest.getLast? = some '}' then
      let inner := rest.dropLast
      let t1 := nextTok inner false
      if t1.1 = lit "\\time" then
        (parseRatio (nextTok t1.2 false).1).bind fun r => readKeyBody (some r) (nextTok t1.2 false).2
      else readKeyBody none inner
    else none
  | _ => none

theorem showInt_nat (n : Int) (h : 0 ≤ n) : Note.showInt n = Note.showNat n.toNat := by
  have : ¬ n < 0 := by omega
  simp [Note.showInt, this]

/-- **a bar with any flags reads back** -/
theorem lyBar_reads_full (b : LBar) (sk st : Bool) (hk : b.key ∈ Keys.allKeys) (hc : 0 ≤ b.count) (hu : 0 ≤ b.unit)
    (xs : List REntry) (h : List.Forall₂ Reads b.entries xs) :
    ∃ s, lyBar b sk st = .ok s ∧
      (readBarFull s).map (fun r => (r.time, r.key, r.entries)) =
        some (if st then some (b.count.toNat, b.unit.toNat) else none,
              if sk then some ((lowerChar (b.key.headD 'C'), b.key.drop 1, 3), '\\' :: modeOf b.key) else none, xs) := by
  obtain ⟨body, h1, h2, h3⟩ := readBody_lyEntries b.entries xs h (1, 1) false
  obtain ⟨body', h1', f1, f2, _⟩ := body_shape b.entries xs h (1, 1) false
  have : body' = body := by rw [h1] at h1'; exact (Except.ok.inj h1').symm
  subst this
  obtain ⟨_, k2, _, k4, k5, _⟩ := key_tok_table b.key hk
  refine ⟨_, lyBar_shape b sk st hk body' h1, ?_⟩
  have hrb : readBody (body'.length + 1) body' (1, 1) = some xs := h3 _ (by omega)
  have hts : scan (lit "\\time") false = some false := by decide
  have hks : scan (lit "\\key") false = some false := by decide
  have hrs : scan (Note.showInt b.count ++ '/' :: Note.showInt b.unit) false = some false := by
    rw [showInt_nat _ hc, showInt_nat _ hu]; exact scan_plain _ (ratio_plain _ _) false
  have hpr : parseRatio (Note.showInt b.count ++ '/' :: Note.showInt b.unit) = some (b.count.toNat, b.unit.toNat) := by
    rw [showInt_nat _ hc, showInt_nat _ hu]; exact parseRatio_show _ _
  have hlast : (timePart b st ++ keyPart b sk ++ body' ++ ['}']).getLast? = some '}' := by simp
  have hdrop : (timePart b st ++ keyPart b sk ++ body' ++ ['}']).dropLast = timePart b st ++ keyPart b sk ++ body' := by
    simp [List.dropLast_concat]
  simp only [readBarFull, hlast, if_true, hdrop]
  -- the key part followed by the body, read from its first token
  have hkeyread : ∀ (T : Option (Nat × Nat)),
      (readKeyBody T (keyPart b sk ++ body')).map (fun r => (r.time, r.key, r.entries)) =
      some (T, if sk then some ((lowerChar (b.key.headD 'C'), b.key.drop 1, 3), '\\' :: modeOf b.key) else none, xs) := by
    intro T
    unfold readKeyBody
    cases sk with
    | false =>
      simp only [keyPart, Bool.false_eq_true, if_false, List.nil_append, f2, hrb, Option.bind, Option.map_some]
    | true =>
      have e1 : keyPart b true ++ body' = lit "\\key" ++ ' ' :: (keyTok b.key ++ ' ' :: (('\\' :: modeOf b.key) ++ ' ' :: body')) := by
        simp [keyPart, List.append_assoc]
      rw [e1]
      simp only [nextTok_append _ _ false hks, if_true, nextTok_append _ _ false k2, k4, Option.map_some,
        nextTok_append _ _ false k5, Option.bind, hrb]
  cases st with
  | false =>
    have hnt : (nextTok (timePart b false ++ keyPart b sk ++ body') false).1 ≠ lit "\\time" := by
      simp only [timePart, Bool.false_eq_true, if_false, List.nil_append]
      cases sk with
      | false => simpa [keyPart] using f1
      | true =>
        have e1 : keyPart b true ++ body' = lit "\\key" ++ ' ' :: (keyTok b.key ++ ' ' :: (('\\' :: modeOf b.key) ++ ' ' :: body')) := by
          simp [keyPart, List.append_assoc]
        rw [e1, nextTok_append _ _ false hks]
        show lit "\\key" ≠ lit "\\time"
        decide
    simp only [hnt, if_false]
    have := hkeyread none
    simpa [timePart] using this
  | true =>
    have e1 : timePart b true ++ keyPart b sk ++ body' =
        lit "\\time" ++ ' ' :: ((Note.showInt b.count ++ '/' :: Note.showInt b.unit) ++ ' ' :: (keyPart b sk ++ body')) := by
      simp [timePart, List.append_assoc]
    rw [e1]
    simp only [nextTok_append _ _ false hts, if_true, nextTok_append _ _ false hrs, hpr, Option.bind]
    exact hkeyread (some (b.count.toNat, b.unit.toNat))

/-! ### the track -/

abbrev BarView := Option (Nat × Nat) × Option ((Char × Str × Int) × Str) × List REntry
def viewOf (rb : RBar) : BarView := (rb.time, rb.key, rb.entries)

/-- what the reader should find in bar `b` when the previous bar had key `lastkey` and meter `lasttime` -/
def wantBar (b : LBar) (lastkey : Str) (lasttime : Int × Int) (xs : List REntry) : BarView :=
  (if (lasttime != (b.count, b.unit)) then some (b.count.toNat, b.unit.toNat) else none,
   if (lastkey != b.key) then some ((lowerChar (b.key.headD 'C'), b.key.drop 1, 3), '\\' :: modeOf b.key) else none, xs)

def wantAll : List LBar → List (List REntry) → Str → (Int × Int) → List BarView
  | b :: bs, xs :: xss, lk, lt => wantBar b lk lt xs :: wantAll bs xss b.key (b.count, b.unit)
  | _, _, _, _ => []

/-- the bars of a track text: groups `{ … }` each followed by a blank -/
def splitBars : Nat → Str → Option (List Str)
  | 0, _ => none
  | fuel + 1, s =>
    if s = [] then some []
    else match takeGroup s 0 with
      | some (B, ' ' :: rest) => (splitBars fuel rest).map (B :: ·)
      | _ => none

def readTrackLy (s : Str) : Option (List RBar) :=
  match s with
  | '{' :: ' ' :: rest =>
    if rest.getLast? = some '}' then (splitBars (rest.length + 1) rest.dropLast).bind fun bs => bs.mapM readBarFull
    else none
  | _ => none

/-- a bar's text is one brace group -/
theorem bar_group (b : LBar) (sk st : Bool) (hk : b.key ∈ Keys.allKeys) (hc : 0 ≤ b.count) (hu : 0 ≤ b.unit)
    (xs : List REntry) (h : List.Forall₂ Reads b.entries xs) :
    ∃ mid, lyBar b sk st = .ok ('{' :: (mid ++ ['}'])) ∧ lvl mid 1 = some 1 := by
  obtain ⟨body, h1, _, _, h4⟩ := body_shape b.entries xs h (1, 1) false
  obtain ⟨_, _, k3, _, _, k6⟩ := key_tok_table b.key hk
  refine ⟨' ' :: (timePart b st ++ keyPart b sk ++ body), ?_, ?_⟩
  · rw [lyBar_shape b sk st hk body h1]; simp
  · have hsp : ∀ (X : Str) (d : Nat), lvl (' ' :: X) d = lvl X d := by
      intro X d
      have h1 : ¬ (' ' = '{') := by decide
      have h2 : ¬ (' ' = '}') := by decide
      simp only [lvl, h1, h2, if_false]
    have htime : ∀ c ∈ timePart b st, nobrace c := by
      cases st with
      | false => simp [timePart]
      | true =>
        intro c hc'
        rw [timePart, if_pos rfl, showInt_nat _ hc, showInt_nat _ hu] at hc'
        simp only [List.mem_append, List.mem_cons, List.mem_singleton] at hc'
        rcases hc' with hc' | rfl | (hc' | rfl | hc') | hc'
        · revert hc'; revert c; decide
        · decide
        · exact showNat_nobrace _ c hc'
        · decide
        · exact showNat_nobrace _ c hc'
        · simp at hc'; subst hc'; decide
    have hkey : ∀ c ∈ keyPart b sk, nobrace c := by
      cases sk with
      | false => simp [keyPart]
      | true =>
        intro c hc'
        rw [keyPart, if_pos rfl] at hc'
        simp only [List.mem_append, List.mem_cons, List.mem_singleton] at hc'
        rcases hc' with hc' | rfl | hc' | rfl | (rfl | hc') | hc'
        · revert hc'; revert c; decide
        · decide
        · exact k3 c hc'
        · decide
        · decide
        · exact k6 c hc'
        · simp at hc'; subst hc'; decide
    rw [hsp, lvl_append, lvl_append, lvl_nobrace _ htime, Option.bind, lvl_nobrace _ hkey, Option.bind]
    simpa using h4

def BarOK (b : LBar) (xs : List REntry) : Prop :=
  b.key ∈ Keys.allKeys ∧ 0 ≤ b.count ∧ 0 ≤ b.unit ∧ List.Forall₂ Reads b.entries xs

/-- the bars of a track, in order, each reading back with key and time shown exactly where they change -/
theorem trackBars_read (bars : List LBar) : ∀ (xss : List (List REntry)), List.Forall₂ BarOK bars xss →
    ∀ (lastkey : Str) (lasttime : Int × Int),
    ∃ r, lyTrackBars bars lastkey lasttime = .ok r ∧ bars.length ≤ r.length ∧
      ∀ fuel, bars.length < fuel → ∃ bs rbs, splitBars fuel r = some bs ∧ bs.mapM readBarFull = some rbs ∧
        rbs.map viewOf = wantAll bars xss lastkey lasttime := by
  induction bars with
  | nil =>
    intro xss hx lk lt
    cases hx
    refine ⟨[], rfl, by simp, ?_⟩
    intro fuel hf
    cases fuel with
    | zero => omega
    | succ f => exact ⟨[], [], by simp [splitBars], rfl, rfl⟩
  | cons b bs ih =>
    intro xss hx lk lt
    cases hx with
    | cons hb hrest =>
      rename_i xs xss'
      obtain ⟨hk, hc, hu, hr⟩ := hb
      obtain ⟨s, e1, e2⟩ := lyBar_reads_full b (lk != b.key) (lt != (b.count, b.unit)) hk hc hu xs hr
      obtain ⟨mid, g1, g2⟩ := bar_group b (lk != b.key) (lt != (b.count, b.unit)) hk hc hu xs hr
      have hs : s = '{' :: (mid ++ ['}']) := by rw [e1] at g1; exact Except.ok.inj g1
      obtain ⟨rest, r1, r2, r3⟩ := ih xss' hrest b.key (b.count, b.unit)
      refine ⟨s ++ ' ' :: rest, ?_, by simp; omega, ?_⟩
      · rw [track_shows_changes]
        simp only [e1, r1, bind, Except.bind, pure, Except.pure, lit]
        simp
      · intro fuel hf
        cases fuel with
        | zero => omega
        | succ f =>
          obtain ⟨bs', rbs', s1, s2, s3⟩ := r3 f (by simp at hf; omega)
          cases hrb : readBarFull s with
          | none => simp [hrb] at e2
          | some rb =>
            have hview : viewOf rb = wantBar b lk lt xs := by
              simp only [hrb, Option.map_some, Option.some.injEq] at e2
              simpa [viewOf, wantBar] using e2
            refine ⟨s :: bs', rb :: rbs', ?_, ?_, ?_⟩
            · have hne : ¬ (s ++ ' ' :: rest = []) := by simp
              have hform : s ++ ' ' :: rest = '{' :: (mid ++ '}' :: (' ' :: rest)) := by rw [hs]; simp
              simp only [splitBars, hne, if_false]
              rw [hform, takeGroup_bar mid (' ' :: rest) g2]
              simp only [s1, Option.map_some, hs]
            · rw [List.mapM_cons, hrb]
              simp [s2]
            · simp [wantAll, hview, s3]

/-- **a whole track reads back** (`from_Track`): any number of bars, each in one of the 30 keys, with any non-negative
    meter numbers and any number of entries of the vocabulary; key and time are read exactly where they change
    (C major and 4/4 before the first bar) -/
theorem lyTrack_reads (bars : List LBar) (xss : List (List REntry)) (h : List.Forall₂ BarOK bars xss) :
    ∃ s, lyTrack bars = .ok s ∧ (readTrackLy s).map (·.map viewOf) = some (wantAll bars xss (lit "C") (4, 4)) := by
  obtain ⟨r, r1, r2, r3⟩ := trackBars_read bars xss h (lit "C") (4, 4)
  refine ⟨'{' :: ' ' :: (r ++ ['}']), ?_, ?_⟩
  · simp only [lyTrack, bind, Except.bind, r1, pure, Except.pure]
    simp [lit]
  · obtain ⟨bs, rbs, s1, s2, s3⟩ := r3 ((r ++ ['}']).length + 1) (by simp; omega)
    simp only [readTrackLy, List.getLast?_append, List.getLast?_singleton, Option.some_or, if_true, List.dropLast_concat, s1,
      Option.bind, s2, Option.map_some, s3]

/-! ### the statement is about something: a kernel-evaluated track (key change, unchanged meter, a triplet block) -/

private def nt' (s : String) (o : Int) : Note := ⟨s.toList, o, 1, 64⟩
private def tb1 : LBar := ⟨lit "Eb", 3, 4, [⟨Value.dotsF 4 1, some [nt' "Eb" 4, nt' "G" 4]⟩, ⟨Value.tuplet 8 3 2, some [nt' "Bb" 3]⟩,
  ⟨Value.tuplet 8 3 2, none⟩, ⟨Value.tuplet 8 3 2, some [nt' "D" 5]⟩]⟩
private def tb2 : LBar := ⟨lit "c", 3, 4, [⟨2, some [nt' "C" 4]⟩, ⟨4, none⟩]⟩

example : (lyTrack [tb1, tb2]).toOption.map String.ofList =
    some "{ { \\time 3/4 \\key ees \\major <ees' g'>4. \\times 2/3 {bes8 r8 d''8 }} { \\key c \\minor c'2 r4 } }" := by
  decide +kernel

example : (((lyTrack [tb1, tb2]).toOption.bind readTrackLy).map (·.map viewOf) ==
    some [(some (3, 4), some (('e', lit "b", 3), lit "\\major"),
            [([('e', lit "b", 4), ('g', lit "", 4)], (4, 1), (1, 1)), ([('b', lit "b", 3)], (8, 0), (3, 2)), ([], (8, 0), (3, 2)),
             ([('d', lit "", 5)], (8, 0), (3, 2))]),
          (none, some (('c', lit "", 3), lit "\\minor"), [([('c', lit "", 4)], (2, 0), (1, 1)), ([], (4, 0), (1, 1))])]) = true := by
  decide +kernel

end Mingus.Props.C19
