import Mingus.Props.C18Par
/-
  C18 — `play_Tracks` / `play_Composition` inside the scheduler's working domain.

  `playTracks_equal_rhythm`: for ANY number of tracks with any number of bars, when at every bar index the bars that sound
  together share one rhythm and fill their meter exactly (the hypotheses of `playBars_equal_rhythm`, per bar index), the whole
  trace is: one instrument announcement per track, then bar index after bar index the column traces of that group — every
  voice's entry started in voice order, one sleep, those entries stopped — and observers receive exactly that; the tempo is
  returned.  `playComposition_equal_rhythm` is the same through `play_Composition` (default channels 1, 2, …).
-/
namespace Mingus.Props.C18
open Mingus Mingus.Seq Mingus.Containers

/-- the bars that sound together at bar index `i` -/
def groupAt (tracks : List (Instr × List SBar)) (i : Nat) : List SBar := tracks.map fun t => t.2.getD i default

/-- the hypotheses of `playBars_equal_rhythm` for one group -/
structure GroupOK (bars : List SBar) (chans : List Int) (rh : List (Rat × Rat)) : Prop where
  eq : EqualRhythm bars chans rh
  due : ∀ i, i < rh.length → (rh.getD i (0, 1)).1 ≤ tickAt rh i ∧ tickAt rh i < (bars.headD default).length
  full : ¬ (tickAt rh rh.length < (bars.headD default).length)

/-- what one group sounds like -/
def groupTrace (bars : List SBar) (bpm : Int) (rh : List (Rat × Rat)) : List SEv :=
  (List.range rh.length).flatMap fun j => colTrace bars bpm (rh.getD j (0, 1)).2 j

theorem mapM_bars (tracks : List (Instr × List SBar)) (i : Nat) (h : ∀ t ∈ tracks, i < t.2.length) :
    tracks.mapM (fun t => match t.2[i]? with | some b => (pure b : Except Err SBar) | none => .error .index) =
      .ok (groupAt tracks i) := by
  induction tracks with
  | nil => rfl
  | cons t ts ih =>
    have hi : i < t.2.length := h t (by simp)
    have ht : t.2[i]? = some t.2[i] := List.getElem?_eq_getElem hi
    have ih' := ih (fun x hx => h x (by simp [hx]))
    rw [List.mapM_cons, ht]
    simp only [bind, Except.bind, pure, Except.pure] at ih' ⊢
    rw [ih']
    simp [groupAt, List.getD_eq_getElem?_getD, ht]

/-- the bar loop of `play_Tracks` on groups that are all inside the working domain -/
theorem groupsLoop_equal (tracks : List (Instr × List SBar)) (chans : List Int) (rhs : Nat → List (Rat × Rat)) (bpm : Int)
    (hbpm : bpm ≠ 0) (idx : List Nat) :
    (∀ i ∈ idx, (∀ t ∈ tracks, i < t.2.length) ∧ GroupOK (groupAt tracks i) chans (rhs i)) →
    ∀ (st : St), WF st →
      ∃ st', groupsLoop tracks chans idx st bpm = .ok (st', some bpm) ∧
        Ext st st' (idx.flatMap fun i => groupTrace (groupAt tracks i) bpm (rhs i)) := by
  induction idx with
  | nil => intro _ st _; exact ⟨st, rfl, by simpa using Ext.refl st⟩
  | cons i is ih =>
    intro h st hw
    obtain ⟨hlen, hok⟩ := h i (by simp)
    obtain ⟨s1, e1, x1⟩ := playBars_equal_rhythm hok.eq st hw bpm hbpm hok.due hok.full
    obtain ⟨s2, e2, x2⟩ := ih (fun j hj => h j (by simp [hj])) s1 (x1.wf hw)
    refine ⟨s2, ?_, ?_⟩
    · have hm := mapM_bars tracks i hlen
      simp only [groupsLoop, bind, Except.bind]
      split
      · rename_i err heq
        have := heq.symm.trans hm
        cases this
      · rename_i v heq
        have hv : v = groupAt tracks i := by
          have := heq.symm.trans hm
          simpa using this
        subst hv
        simp only [e1]
        exact e2
    · simpa [groupTrace] using x1.trans x2

theorem announce_fold_ok (chans : List Int) (l : List (Nat × Instr × List SBar)) (h : ∀ x ∈ l, x.1 < chans.length) :
    ∀ (st : St), ∃ st', l.foldlM (fun s (x : Nat × Instr × List SBar) =>
      match chans[x.1]? with
      | none => (.error .index : Except Err St)
      | some ch => pure (setInstrument s ch (program x.2.1) 0)) st = .ok st' := by
  induction l with
  | nil => intro st; exact ⟨st, rfl⟩
  | cons x xs ih =>
    intro st
    have hlt : x.1 < chans.length := h x (by simp)
    have hx : chans[x.1]? = some chans[x.1] := List.getElem?_eq_getElem hlt
    obtain ⟨s2, e2⟩ := ih (fun y hy => h y (by simp [hy])) (setInstrument st chans[x.1] (program x.2.1) 0)
    refine ⟨s2, ?_⟩
    rw [List.foldlM_cons]
    simp only [hx, bind, Except.bind, pure, Except.pure]
    exact e2

/-- **play_Tracks inside the working domain** -/
theorem playTracks_equal_rhythm (st : St) (hw : WF st) (t0 : Instr × List SBar) (ts : List (Instr × List SBar))
    (chans : List Int) (bpm : Int) (hbpm : bpm ≠ 0) (rhs : Nat → List (Rat × Rat))
    (hch : (t0 :: ts).length ≤ chans.length)
    (hgroups : ∀ i, i < t0.2.length → (∀ t ∈ t0 :: ts, i < t.2.length) ∧ GroupOK (groupAt (t0 :: ts) i) chans (rhs i)) :
    ∃ st', playTracks st (t0 :: ts) chans bpm = .ok (st', some bpm) ∧
      Ext st st' ((List.zip (List.range (t0 :: ts).length) (t0 :: ts)).map (announce chans) ++
        (List.range t0.2.length).flatMap fun i => groupTrace (groupAt (t0 :: ts) i) bpm (rhs i)) := by
  have x0 := notifyHigh_ext st
  have hidx : ∀ x ∈ List.zip (List.range (t0 :: ts).length) (t0 :: ts), x.1 < chans.length := by
    intro x hx
    have := (List.of_mem_zip hx).1
    have := List.mem_range.1 this
    omega
  obtain ⟨s1, e1⟩ := announce_fold_ok chans _ hidx (notifyHigh st)
  have x1 := announce_fold chans _ _ _ e1 (x0.wf hw)
  obtain ⟨s2, e2, x2⟩ := groupsLoop_equal (t0 :: ts) chans rhs bpm hbpm (List.range t0.2.length)
    (fun i hi => hgroups i (List.mem_range.1 hi)) s1 (x1.wf (x0.wf hw))
  refine ⟨s2, ?_, ?_⟩
  · unfold playTracks
    simp only [bind, Except.bind]
    split
    · rename_i err heq
      have := heq.symm.trans e1
      cases this
    · rename_i v heq
      have hv : v = s1 := by
        have := heq.symm.trans e1
        simpa using this
      subst hv
      exact e2
  · simpa using (x0.trans x1).trans x2

/-- **play_Composition inside the working domain** (channels given, or the default 1, 2, …) -/
theorem playComposition_equal_rhythm (st : St) (hw : WF st) (t0 : Instr × List SBar) (ts : List (Instr × List SBar))
    (chans : Option (List Int)) (bpm : Int) (hbpm : bpm ≠ 0) (rhs : Nat → List (Rat × Rat))
    (hch : (t0 :: ts).length ≤ (compChans chans (t0 :: ts).length).length)
    (hgroups : ∀ i, i < t0.2.length → (∀ t ∈ t0 :: ts, i < t.2.length) ∧
      GroupOK (groupAt (t0 :: ts) i) (compChans chans (t0 :: ts).length) (rhs i)) :
    ∃ st', playComposition st (t0 :: ts) chans bpm = .ok (st', some bpm) ∧
      Ext st st' ((List.zip (List.range (t0 :: ts).length) (t0 :: ts)).map (announce (compChans chans (t0 :: ts).length)) ++
        (List.range t0.2.length).flatMap fun i => groupTrace (groupAt (t0 :: ts) i) bpm (rhs i)) := by
  have x0 := notifyHigh_ext st
  obtain ⟨s1, e1, x1⟩ := playTracks_equal_rhythm (notifyHigh st) (x0.wf hw) t0 ts _ bpm hbpm rhs hch hgroups
  refine ⟨s1, ?_, by simpa using x0.trans x1⟩
  unfold playComposition
  exact e1

/-- non-vacuity: two tracks of two bars each (3/4, the voices of `C18Par`), default channels -/
example : (playComposition {} [(.plain, [v1, v1]), (.nr 40, [v2, v2])] none 120).toOption.map (fun r => (r.1.hooks, r.2)) =
    some ([SEv.instr 1 1 0, SEv.instr 2 40 0] ++
      (List.range 2).flatMap (fun i => groupTrace (groupAt [(.plain, [v1, v1]), (.nr 40, [v2, v2])] i) 120 [(0, 4), (1/4, 4), (1/2, 4)]),
      some 120) := by
  decide +kernel

end Mingus.Props.C18
