import Mingus.Props.C07Defs
/- GENERATED once by the snippet recorded in DESIGN.md (slice 4 of the recognise-all theorem): kernel evaluation of
   every rotation of every listed shorthand on all 21 roots. -/
namespace Mingus.Props.C07
open Mingus
def sliceKeys4 : List Str := [lit "add13", lit "sus4b9", lit "m6", lit "sus4"]
theorem slice4 : ∀ k ∈ sliceKeys4, keyOK k = true := by decide +kernel
end Mingus.Props.C07
