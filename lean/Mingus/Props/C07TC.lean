import Mingus.Props.C07Defs
/- slice of the three-note theorem: first note on letter C (3 x 21 x 21 inputs) -/
namespace Mingus.Props.C07
theorem triplesC : letterOK 'C' = true := by decide +kernel
end Mingus.Props.C07
