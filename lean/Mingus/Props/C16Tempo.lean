import Mingus.Props.C16Track
/-
  C16 — a container that carries a tempo (`bpm` attribute) inside a bar.

  `entry_tempo_refines`: for any machine state related to a specification state, an entry with notes and a tempo `b ≥ 4`
  writes first the tempo event `FF 51 03 (60000000 div b)` WITH THE ACCUMULATED REST AS ITS DELTA, and then exactly the events
  the same entry without a tempo writes after no rest (`specEntry` with delay 0) — so the rest is kept, the notes of the entry
  start at the tick of the tempo event, and everything after the entry is as without the tempo.  (This is the statement the
  unrepaired code violated: it reset the pending delta before the tempo event, see known_findings.json, fix ed36e72.)
  A rest with a tempo attribute writes nothing (`rest_tempo_silent`), as in the code.
-/
namespace Mingus.Props.C16
open Mingus Mingus.Midi Mingus.Containers

theorem setTempo_ok (t : MT) (b : Int) (h : okBpm b) :
    t.setTempo b = .ok (t.emit (.metaE 81 (be 3 ((60000000 : Int) / b).toNat))) := by
  unfold okBpm at h
  have h0 : b ≠ 0 := by omega
  have h1 : 0 ≤ (60000000 : Int) / b := Int.ediv_nonneg (by omega) (by omega)
  have h2 : (60000000 : Int) / b < 16777216 := by
    apply Int.ediv_lt_of_lt_mul (by omega); omega
  have h3 : b > 0 := by omega
  unfold MT.setTempo
  rw [if_neg h0, if_pos ⟨h1, h2, h3⟩]

/-- the entry without its tempo attribute -/
def plain (e : MEntry) : MEntry := { e with bpm := none }

/-- **an entry with a tempo change** -/
theorem entry_tempo_refines (t : MT) (evs : List TEv) (s : S) (e : MEntry) (b : Int) (hb : e.bpm = some b) (hbpm : okBpm b)
    (hr : Rel t evs s) (hi : okInstr s) (he : okEntry (plain e)) (hne : e.notes ≠ []) :
    ∃ t', t.playEntry e = .ok t' ∧
      Rel t' (evs ++ ⟨s.delay, .metaE 81 (be 3 ((60000000 : Int) / b).toNat)⟩ :: (specEntry { s with delay := 0 } (plain e)).1)
        (specEntry { s with delay := 0 } (plain e)).2 := by
  obtain ⟨r1, r2, r3, r4⟩ := hr
  have hv : e.value ≠ 0 := he.1
  -- the state after the tempo event
  let t1 : MT := (({ t with pending := t.delay, delay := 0 } : MT).emit (.metaE 81 (be 3 ((60000000 : Int) / b).toNat))).setDelta 0
  have hrel : Rel t1 (evs ++ [⟨s.delay, .metaE 81 (be 3 ((60000000 : Int) / b).toNat)⟩]) { s with delay := 0 } := by
    simp [Rel, t1, MT.emit, MT.setDelta, r1, r2, r3, r4]
  have hi' : okInstr { s with delay := 0 } := hi
  obtain ⟨t', h1, h2⟩ := entry_refines t1 _ _ (plain e) hrel hi' he
  refine ⟨t', ?_, by simpa using h2⟩
  rw [← h1]
  have hself : ({ t1 with pending := t1.delay, delay := 0 } : MT) = t1 := by
    simp [t1, MT.emit, MT.setDelta]
  unfold MT.playEntry
  simp only [plain, hv, if_false, hne, hb, bind, Except.bind, pure, Except.pure]
  rw [setTempo_ok _ b hbpm]
  simp only [hself]
  rfl

/-- a rest (None or the empty container) with a tempo attribute writes nothing: only time passes -/
theorem rest_tempo_silent (t : MT) (e : MEntry) (hv : e.value ≠ 0) (hn : e.notes = []) :
    t.playEntry e = .ok { t with delay := t.delay + tickOf e.value } := by
  unfold MT.playEntry
  simp [hv, hn]

/-- non-vacuity (kernel): a rest of 36 ticks, then a chord carrying bpm 60: the tempo event has delta 36, the chord follows at 0 -/
example : (({ delay := 36 } : MT).playEntry ⟨8, [⟨"E".toList, 4, 3, 90⟩, ⟨"G".toList, 4, 3, 90⟩], some 60⟩).toOption.map (·.evs) =
    some [⟨36, .metaE 81 [15, 66, 64]⟩, ⟨0, .chan2 9 3 64 90⟩, ⟨0, .chan2 9 3 67 90⟩, ⟨36, .chan2 8 3 64 90⟩, ⟨0, .chan2 8 3 67 90⟩] := by
  decide +kernel

end Mingus.Props.C16
