import Mingus.Props.C09
import Mingus.Lemmas.FloatErr
/-
  C09 — `value.add` as the code computes it (three divisions and one addition in double arithmetic, `Value.addF`) against the
  exact statement of the property ("returns the value whose duration is the sum of the durations").

  `addF_close`: for ALL positive values a, b — no bound on their size — the double computation succeeds and its result r
  satisfies |r · (1/a + 1/b) − 1| ≤ 4 · 2⁻⁵³, i.e. r is within four units of relative roundoff of the exact value
  `Value.add a b`; `addF_duration_close` says the same of the durations.  (The IEEE model has no overflow or subnormals; the
  operands of the property are note values.)  `addF_zero`: a zero operand is a ZeroDivisionError, as in the code.
  `subtractF_close`: the same for subtraction, with the condition number of the cancellation in the bound.
-/
namespace Mingus.Props.C09
open Mingus Mingus.Value
open Mingus.F64 (u u_pos u_lt_one round_pos round_pos_err)

private theorem num_up : (1 + u) ≤ (1 + 4 * u) * (1 - u) ^ 2 := by unfold u; norm_num
private theorem num_dn : (1 - 4 * u) * (1 + u) ^ 2 ≤ 1 - u := by unfold u; norm_num

/-- from the interval form of a rounding -/
theorem round_between (q : Rat) (hq : 0 < q) : q * (1 - u) ≤ F64.round q ∧ F64.round q ≤ q * (1 + u) := by
  have h := round_pos_err q hq
  rw [abs_le] at h
  constructor <;> nlinarith [h.1, h.2]

theorem addF_close (a b : Rat) (ha : 0 < a) (hb : 0 < b) :
    ∃ r, addF a b = .ok r ∧ 0 < r ∧ 1 - 4 * u ≤ r * (1 / a + 1 / b) ∧ r * (1 / a + 1 / b) ≤ 1 + 4 * u := by
  have hA : 0 < 1 / a := by positivity
  have hB : 0 < 1 / b := by positivity
  obtain ⟨x1, x2⟩ := round_between _ hA
  obtain ⟨y1, y2⟩ := round_between _ hB
  have hx := round_pos _ hA
  have hy := round_pos _ hB
  have hxy : 0 < F64.round (1 / a) + F64.round (1 / b) := by linarith
  obtain ⟨s1, s2⟩ := round_between _ hxy
  have hs := round_pos _ hxy
  set s := F64.round (F64.round (1 / a) + F64.round (1 / b)) with hsdef
  have ht : 0 < 1 / s := by positivity
  obtain ⟨r1, r2⟩ := round_between _ ht
  have hr := round_pos _ ht
  have hu := u_pos
  have hu1 := u_lt_one
  set E := 1 / a + 1 / b with hE
  have hEpos : 0 < E := by positivity
  -- s between E(1-u)^2 and E(1+u)^2
  have hslo : E * (1 - u) ^ 2 ≤ s := by
    have : E * (1 - u) ≤ F64.round (1 / a) + F64.round (1 / b) := by rw [hE]; linarith
    calc E * (1 - u) ^ 2 = (E * (1 - u)) * (1 - u) := by ring
      _ ≤ (F64.round (1 / a) + F64.round (1 / b)) * (1 - u) := mul_le_mul_of_nonneg_right this (by linarith)
      _ ≤ s := s1
  have hshi : s ≤ E * (1 + u) ^ 2 := by
    have : F64.round (1 / a) + F64.round (1 / b) ≤ E * (1 + u) := by rw [hE]; linarith
    calc s ≤ (F64.round (1 / a) + F64.round (1 / b)) * (1 + u) := s2
      _ ≤ (E * (1 + u)) * (1 + u) := mul_le_mul_of_nonneg_right this (by linarith)
      _ = E * (1 + u) ^ 2 := by ring
  have hts : 1 / s * s = 1 := by field_simp
  refine ⟨F64.round (1 / s), ?_, hr, ?_, ?_⟩
  · unfold addF F64.add F64.div
    have h0 : ¬ (a = 0 ∨ b = 0) := by
      rintro (h | h) <;> [exact ha.ne' h; exact hb.ne' h]
    simp only [h0, if_false]
    rw [← hsdef, if_neg hs.ne']
  · -- lower: r·E·(1+u)^2 ≥ r·s ≥ (1/s)(1-u)·s = 1-u ≥ (1-4u)(1+u)^2
    have hp : 0 < (1 + u) ^ 2 := by positivity
    have h1 : (1 - u) ≤ F64.round (1 / s) * (E * (1 + u) ^ 2) := by
      calc (1 - u) = (1 / s * (1 - u)) * s := by rw [mul_right_comm, hts, one_mul]
        _ ≤ F64.round (1 / s) * s := mul_le_mul_of_nonneg_right r1 hs.le
        _ ≤ F64.round (1 / s) * (E * (1 + u) ^ 2) := mul_le_mul_of_nonneg_left hshi hr.le
    have h2 : (1 - 4 * u) * (1 + u) ^ 2 ≤ (F64.round (1 / s) * E) * (1 + u) ^ 2 := by
      calc (1 - 4 * u) * (1 + u) ^ 2 ≤ 1 - u := num_dn
        _ ≤ F64.round (1 / s) * (E * (1 + u) ^ 2) := h1
        _ = (F64.round (1 / s) * E) * (1 + u) ^ 2 := by ring
    exact le_of_mul_le_mul_right h2 hp
  · have hp : 0 < (1 - u) ^ 2 := by
      have : 0 < 1 - u := by linarith
      positivity
    have h1 : F64.round (1 / s) * (E * (1 - u) ^ 2) ≤ 1 + u := by
      calc F64.round (1 / s) * (E * (1 - u) ^ 2) ≤ F64.round (1 / s) * s := mul_le_mul_of_nonneg_left hslo hr.le
        _ ≤ (1 / s * (1 + u)) * s := mul_le_mul_of_nonneg_right r2 hs.le
        _ = 1 + u := by rw [mul_right_comm, hts, one_mul]
    have h2 : (F64.round (1 / s) * E) * (1 - u) ^ 2 ≤ (1 + 4 * u) * (1 - u) ^ 2 := by
      calc (F64.round (1 / s) * E) * (1 - u) ^ 2 = F64.round (1 / s) * (E * (1 - u) ^ 2) := by ring
        _ ≤ 1 + u := h1
        _ ≤ (1 + 4 * u) * (1 - u) ^ 2 := num_up
    exact le_of_mul_le_mul_right h2 hp

/-- the same, against the exact function of the property: |r − add a b| ≤ 4·2⁻⁵³ · add a b -/
theorem addF_close_exact (a b : Rat) (ha : 0 < a) (hb : 0 < b) :
    ∃ r, addF a b = .ok r ∧ |r - add a b| ≤ 4 * u * add a b := by
  obtain ⟨r, h, _, lo, hi⟩ := addF_close a b ha hb
  refine ⟨r, h, ?_⟩
  have hE : 0 < 1 / a + 1 / b := by positivity
  unfold add
  set E := 1 / a + 1 / b
  have hr : r - 1 / E = (r * E - 1) * (1 / E) := by field_simp
  have hT : 0 < 1 / E := by positivity
  rw [hr, abs_mul, abs_of_pos hT]
  have : |r * E - 1| ≤ 4 * u := by rw [abs_le]; constructor <;> linarith
  exact mul_le_mul_of_nonneg_right this hT.le

/-- a zero operand raises ZeroDivisionError, whatever the other operand is -/
theorem addF_zero (a b : Rat) (h : a = 0 ∨ b = 0) : addF a b = .error .zeroDiv ∧ subtractF a b = .error .zeroDiv := by
  unfold addF subtractF; simp [h]

/-- whenever the double computation returns, the result is not zero (so it is a usable note value) -/
theorem addF_ne_zero (a b r : Rat) (h : addF a b = .ok r) : r ≠ 0 := by
  unfold addF at h
  split at h
  · cases h
  · simp only at h
    split at h
    · cases h
    · rename_i hs
      injection h with h
      rw [← h]
      exact F64.div_ne_zero _ _ one_ne_zero hs

/-- equal durations leave nothing: ZeroDivisionError (the code's 1/0.0), for every a -/
theorem subtractF_self (a : Rat) : subtractF a a = .error .zeroDiv := by
  unfold subtractF F64.sub
  split
  · rfl
  · simp [F64.round]


private theorem u_small : u ≤ 1 / 16 := by unfold F64.u; norm_num

/-- **subtraction**, for the longer note first (0 < a < b) and durations that do not cancel: with the condition number
    κ ≥ (1/a + 1/b) / (1/a − 1/b) and κ·2⁻⁵³ ≤ 1/4, the double computation succeeds and its result r satisfies
    |r · (1/a − 1/b) − 1| ≤ (2κ + 4) · 2⁻⁵³.  (For the note values of the library κ is small: a half note minus a quarter
    note has κ = 3.)  Without such a condition there is no bound: durations that differ in the last bit cancel. -/
theorem subtractF_close (a b : Rat) (ha : 0 < a) (hab : a < b) (κ : Rat)
    (hκ : 1 / a + 1 / b ≤ κ * (1 / a - 1 / b)) (hκu : κ * u ≤ 1 / 4) :
    ∃ r, subtractF a b = .ok r ∧ 0 < r ∧ 1 - (2 * κ + 4) * u ≤ r * (1 / a - 1 / b) ∧ r * (1 / a - 1 / b) ≤ 1 + (2 * κ + 4) * u := by
  have hb : 0 < b := lt_trans ha hab
  have hA : 0 < 1 / a := by positivity
  have hB : 0 < 1 / b := by positivity
  have hD : 0 < 1 / a - 1 / b := by
    have : 1 / b < 1 / a := one_div_lt_one_div_of_lt ha hab
    linarith
  obtain ⟨x1, x2⟩ := round_between _ hA
  obtain ⟨y1, y2⟩ := round_between _ hB
  have hu := u_pos
  have hu1 := u_lt_one
  have hus := u_small
  set D := 1 / a - 1 / b with hDdef
  set t := κ * u with ht
  have ht0 : 0 ≤ t := by
    have : 0 ≤ κ * D := le_trans (by positivity) hκ
    have hk : 0 ≤ κ := by
      rcases le_or_gt 0 κ with h | hneg
      · exact h
      · have : κ * D < 0 := mul_neg_of_neg_of_pos hneg hD
        linarith
    positivity
  -- the difference of the rounded durations
  have hlo : D * (1 - t) ≤ F64.round (1 / a) - F64.round (1 / b) := by
    have : (1 / a + 1 / b) * u ≤ κ * D * u := mul_le_mul_of_nonneg_right hκ hu.le
    have e : κ * D * u = D * t := by rw [ht]; ring
    nlinarith
  have hhi : F64.round (1 / a) - F64.round (1 / b) ≤ D * (1 + t) := by
    have : (1 / a + 1 / b) * u ≤ κ * D * u := mul_le_mul_of_nonneg_right hκ hu.le
    have e : κ * D * u = D * t := by rw [ht]; ring
    nlinarith
  have hxy : 0 < F64.round (1 / a) - F64.round (1 / b) := by
    have : 0 < D * (1 - t) := mul_pos hD (by linarith)
    linarith
  obtain ⟨s1, s2⟩ := round_between _ hxy
  have hs := round_pos _ hxy
  set s := F64.round (F64.round (1 / a) - F64.round (1 / b)) with hsdef
  have hts0 : 0 < 1 / s := by positivity
  obtain ⟨r1, r2⟩ := round_between _ hts0
  have hr := round_pos _ hts0
  have hslo : D * (1 - t) * (1 - u) ≤ s :=
    le_trans (mul_le_mul_of_nonneg_right hlo (by linarith)) s1
  have hshi : s ≤ D * (1 + t) * (1 + u) :=
    le_trans s2 (mul_le_mul_of_nonneg_right hhi (by linarith))
  have hts : 1 / s * s = 1 := by field_simp
  refine ⟨F64.round (1 / s), ?_, hr, ?_, ?_⟩
  · unfold subtractF F64.sub F64.div
    have h0 : ¬ (a = 0 ∨ b = 0) := by
      rintro (h | h) <;> [exact ha.ne' h; exact hb.ne' h]
    simp only [h0, if_false]
    rw [← hsdef, if_neg hs.ne']
  · -- lower
    have hp : 0 < (1 + t) * (1 + u) := by positivity
    have h1 : (1 - u) ≤ F64.round (1 / s) * (D * (1 + t) * (1 + u)) := by
      calc (1 - u) = (1 / s * (1 - u)) * s := by rw [mul_right_comm, hts, one_mul]
        _ ≤ F64.round (1 / s) * s := mul_le_mul_of_nonneg_right r1 hs.le
        _ ≤ F64.round (1 / s) * (D * (1 + t) * (1 + u)) := mul_le_mul_of_nonneg_left hshi hr.le
    have hnum : (1 - (2 * t + 4 * u)) * ((1 + t) * (1 + u)) ≤ 1 - u := by
      nlinarith [mul_nonneg ht0 hu.le, mul_nonneg ht0 ht0, mul_nonneg hu.le hu.le, mul_nonneg (mul_nonneg ht0 ht0) hu.le,
        mul_nonneg (mul_nonneg ht0 hu.le) hu.le]
    have h2 : (1 - (2 * t + 4 * u)) * ((1 + t) * (1 + u)) ≤ (F64.round (1 / s) * D) * ((1 + t) * (1 + u)) := by
      calc _ ≤ 1 - u := hnum
        _ ≤ F64.round (1 / s) * (D * (1 + t) * (1 + u)) := h1
        _ = (F64.round (1 / s) * D) * ((1 + t) * (1 + u)) := by ring
    have := le_of_mul_le_mul_right h2 hp
    have e : (2 * κ + 4) * u = 2 * t + 4 * u := by rw [ht]; ring
    rw [e]; exact this
  · -- upper
    have h1t : 0 < 1 - t := by linarith
    have h1u : 0 < 1 - u := by linarith
    have hp : 0 < (1 - t) * (1 - u) := mul_pos h1t h1u
    have h1 : F64.round (1 / s) * (D * (1 - t) * (1 - u)) ≤ 1 + u := by
      calc F64.round (1 / s) * (D * (1 - t) * (1 - u)) ≤ F64.round (1 / s) * s := mul_le_mul_of_nonneg_left hslo hr.le
        _ ≤ (1 / s * (1 + u)) * s := mul_le_mul_of_nonneg_right r2 hs.le
        _ = 1 + u := by rw [mul_right_comm, hts, one_mul]
    have hnum : 1 + u ≤ (1 + (2 * t + 4 * u)) * ((1 - t) * (1 - u)) := by
      nlinarith [mul_nonneg ht0 (by linarith : (0 : Rat) ≤ 1 / 4 - t), mul_nonneg hu.le (by linarith : (0 : Rat) ≤ 1 / 4 - t),
        mul_nonneg hu.le (by linarith : (0 : Rat) ≤ 1 / 16 - u), mul_nonneg (mul_nonneg ht0 ht0) hu.le,
        mul_nonneg (mul_nonneg ht0 hu.le) hu.le]
    have h2 : (F64.round (1 / s) * D) * ((1 - t) * (1 - u)) ≤ (1 + (2 * t + 4 * u)) * ((1 - t) * (1 - u)) := by
      calc (F64.round (1 / s) * D) * ((1 - t) * (1 - u)) = F64.round (1 / s) * (D * (1 - t) * (1 - u)) := by ring
        _ ≤ 1 + u := h1
        _ ≤ _ := hnum
    have := le_of_mul_le_mul_right h2 hp
    have e : (2 * κ + 4) * u = 2 * t + 4 * u := by rw [ht]; ring
    rw [e]; exact this

/-- non-vacuity (kernel): a half note minus a quarter note (κ = 3) is the double 4 exactly -/
example : subtractF 2 4 = .ok 4 := by decide +kernel

/-- non-vacuity (kernel): a quarter and an eighth give the double nearest to 8/3 -/
example : addF 4 8 = .ok (6004799503160661 / 2251799813685248) := by decide +kernel

end Mingus.Props.C09
