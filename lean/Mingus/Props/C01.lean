import Mingus.Lemmas.Notes
/-
  C01 — note names and pitch classes agree for every spelling.
  Every theorem quantifies over *all* accidental strings (any length, any order).
-/
namespace Mingus.Props.C01
open Mingus Mingus.Notes

/-- Spec: a name is a letter A–G followed by any string over {#, b}. -/
def IsName (s : Str) : Prop := ∃ l t, s = l :: t ∧ isLetter l = true ∧ ∀ c ∈ t, c = '#' ∨ c = 'b'

theorem all_isAcc_iff (t : Str) : t.all isAcc = true ↔ ∀ c ∈ t, c = '#' ∨ c = 'b' := by
  simp only [List.all_eq_true, isAcc, Bool.or_eq_true, beq_iff_eq]
  constructor <;> intro h c hc <;> rcases h c hc with e | e <;> simp [e]

/-- validity predicate is true exactly for names -/
theorem isValid_iff (s : Str) (hs : s ≠ []) : isValidNote s = .ok true ↔ IsName s := by
  cases s with
  | nil => exact absurd rfl hs
  | cons l t =>
    simp only [isValidNote, IsName]
    constructor
    · intro h
      have h' : (isLetter l && t.all isAcc) = true := by simpa using h
      rw [Bool.and_eq_true] at h'
      exact ⟨l, t, rfl, h'.1, (all_isAcc_iff t).1 h'.2⟩
    · rintro ⟨l', t', e, hl, ht⟩
      cases e
      rw [hl, (all_isAcc_iff t).2 ht]; rfl

/-- pitch class = (natural + sharps − flats) mod 12, for every accidental string -/
theorem noteToInt_spec (l : Char) (t : Str) (v : Int) (hl : natural? l = some v)
    (ht : ∀ c ∈ t, c = '#' ∨ c = 'b') :
    noteToInt (l :: t) = .ok ((v + (t.count '#' : Int) - (t.count 'b' : Int)) % 12) := by
  simp only [noteToInt, hl, (all_isAcc_iff t).2 ht, if_true, accVal_count]
  congr 2; omega

theorem noteToInt_range (s : Str) (k : Int) (h : noteToInt s = .ok k) : 0 ≤ k ∧ k < 12 := by
  cases s with
  | nil => simp [noteToInt] at h
  | cons l t =>
    simp only [noteToInt] at h
    split at h
    · split at h
      · cases h; omega
      · cases h
    · cases h

/-- every other non-empty string is rejected with the note-format error -/
theorem noteToInt_reject (s : Str) (hs : s ≠ []) (h : ¬ IsName s) : noteToInt s = .error .noteFormat := by
  cases s with
  | nil => exact absurd rfl hs
  | cons l t =>
    simp only [noteToInt]
    cases hn : natural? l with
    | none => rfl
    | some v =>
      simp only
      by_cases ha : t.all isAcc = true
      · exact absurd ⟨l, t, rfl, by simp [isLetter, hn], (all_isAcc_iff t).1 ha⟩ h
      · simp [ha]

theorem reduce_reject (s : Str) (hs : s ≠ []) (h : ¬ IsName s) :
    reduceAccidentals s = .error .noteFormat := by
  cases s with
  | nil => exact absurd rfl hs
  | cons l t =>
    simp only [reduceAccidentals]
    cases hn : natural? l with
    | none => rfl
    | some v =>
      simp only
      by_cases ha : t.all isAcc = true
      · exact absurd ⟨l, t, rfl, by simp [isLetter, hn], (all_isAcc_iff t).1 ha⟩ h
      · simp [ha]

/-- number → name → number is the identity; sharp style uses naturals and single sharps,
    flat style naturals and single flats (finite: 12 × 2, whole table) -/
theorem intToNote_roundtrip :
    ∀ i ∈ List.range 12,
      (intToNote i ['#'] = .ok (ns.getD i []) ∧ noteToInt (ns.getD i []) = .ok i ∧
        ((ns.getD i []).tail = [] ∨ (ns.getD i []).tail = ['#'])) ∧
      (intToNote i ['b'] = .ok (nf.getD i []) ∧ noteToInt (nf.getD i []) = .ok i ∧
        ((nf.getD i []).tail = [] ∨ (nf.getD i []).tail = ['b'])) := by
  decide +kernel

theorem intToNote_range (i : Int) (st : Str) (h : i < 0 ∨ i ≥ 12) : intToNote i st = .error .range := by
  simp [intToNote, h]
theorem intToNote_style (i : Int) (st : Str) (h : 0 ≤ i ∧ i < 12) (h1 : st ≠ ['#']) (h2 : st ≠ ['b']) :
    intToNote i st = .error .format := by
  have : ¬ (i < 0 ∨ i ≥ 12) := by omega
  simp [intToNote, this, h1, h2]

/-- enharmonic exactly when the pitch classes are equal -/
theorem enharmonic_iff (a b : Str) (x y : Int) (ha : noteToInt a = .ok x) (hb : noteToInt b = .ok y) :
    isEnharmonic a b = .ok (decide (x = y)) := by
  simp only [isEnharmonic, ha, hb, bind, Except.bind, pure, Except.pure]
  by_cases h : x = y <;> simp [h]

/-- `pc` is the total view of `noteToInt` on valid names -/
theorem noteToInt_eq_pc (s : Str) (h : valid s = true) : noteToInt s = .ok (pc s) := by
  cases s with
  | nil => simp [valid] at h
  | cons l t =>
    simp only [valid, Bool.and_eq_true, isLetter] at h
    obtain ⟨h1, h2⟩ := h
    cases hn : natural? l with
    | none => simp [hn] at h1
    | some v => simp [noteToInt, pc, hn, h2]

private theorem snoc_cases (s : Str) (hs : s ≠ []) : ∃ i a, s = i ++ [a] := by
  exact ⟨s.dropLast, s.getLast hs, (List.dropLast_concat_getLast hs).symm⟩

/-- augmenting keeps validity and the letter and raises the pitch class by exactly one -/
theorem augment_spec (l : Char) (t : Str) (h : valid (l :: t) = true) :
    valid (augment (l :: t)) = true ∧ (augment (l :: t)).head? = some l ∧
    pc (augment (l :: t)) = (pc (l :: t) + 1) % 12 := by
  simp only [valid, Bool.and_eq_true] at h
  obtain ⟨hl, ht⟩ := h
  by_cases hnil : t = []
  · subst hnil
    have : l ≠ 'b' := letter_ne_b hl
    simp [augment, this, valid, hl, isAcc, pc, accVal_cons, accOf]
  · obtain ⟨i, a, e⟩ := snoc_cases t hnil
    subst e
    rw [all_isAcc_append] at ht
    simp only [Bool.and_eq_true] at ht
    unfold augment
    rw [getLast_snoc]
    by_cases ha : a = 'b'
    · subst ha
      simp only [ne_eq, not_true_eq_false, if_false, dropLast_snoc]
      refine ⟨by simp [valid, hl, ht.1], by simp, ?_⟩
      simp only [pc, accVal_append, accVal_cons, accOf]; simp; omega
    · have ha' : a = '#' := by
        have := ht.2; simp [isAcc] at this; rcases this with e | e; exact absurd e ha; exact e
      subst ha'
      simp only [ne_eq, Option.some.injEq, show ¬ ('#' = 'b') by decide, not_false_eq_true, if_true]
      refine ⟨?_, by simp, ?_⟩
      · simp [valid, hl, ht.1, isAcc, List.all_append]
      · simp only [List.cons_append, pc, accVal_append, accVal_cons, accOf]; simp; omega

theorem diminish_spec (l : Char) (t : Str) (h : valid (l :: t) = true) :
    valid (diminish (l :: t)) = true ∧ (diminish (l :: t)).head? = some l ∧
    pc (diminish (l :: t)) = (pc (l :: t) - 1) % 12 := by
  simp only [valid, Bool.and_eq_true] at h
  obtain ⟨hl, ht⟩ := h
  by_cases hnil : t = []
  · subst hnil
    have : l ≠ '#' := letter_ne_sharp hl
    simp [diminish, this, valid, hl, isAcc, pc, accVal_cons, accOf]; omega
  · obtain ⟨i, a, e⟩ := snoc_cases t hnil
    subst e
    rw [all_isAcc_append] at ht
    simp only [Bool.and_eq_true] at ht
    unfold diminish
    rw [getLast_snoc]
    by_cases ha : a = '#'
    · subst ha
      simp only [ne_eq, not_true_eq_false, if_false, dropLast_snoc]
      refine ⟨by simp [valid, hl, ht.1], by simp, ?_⟩
      simp only [pc, accVal_append, accVal_cons, accOf]; simp; omega
    · have ha' : a = 'b' := by
        have := ht.2; simp [isAcc] at this; rcases this with e | e; exact e; exact absurd e ha
      subst ha'
      simp only [ne_eq, Option.some.injEq, show ¬ ('b' = '#') by decide, not_false_eq_true, if_true]
      refine ⟨?_, by simp, ?_⟩
      · simp [valid, hl, ht.1, isAcc, List.all_append]
      · simp only [List.cons_append, pc, accVal_append, accVal_cons, accOf]; simp; omega

/-- redundancy removal: the letter with exactly the net number of sharps or of flats -/
theorem removeRedundant_spec (l : Char) (t : Str) (h : valid (l :: t) = true) :
    removeRedundant (l :: t) = .ok (rep l (accVal t)) ∧ pc (rep l (accVal t)) = pc (l :: t) := by
  simp only [valid, Bool.and_eq_true] at h
  refine ⟨?_, ?_⟩
  · simp only [removeRedundant]
    rw [rebuild_eq_rep l (letter_ne_b h.1) (letter_ne_sharp h.1)]
  · rw [pc_rep]; rfl

/-- reduction: same pitch class, at most one accidental, a sharp (or none) for a net raise,
    a flat for a net lowering -/
theorem reduce_spec (l : Char) (t : Str) (h : valid (l :: t) = true) :
    ∃ r, reduceAccidentals (l :: t) = .ok r ∧ noteToInt r = .ok (pc (l :: t)) ∧
      (r.tail = [] ∨ (accVal t ≥ 0 ∧ r.tail = ['#']) ∨ (accVal t < 0 ∧ r.tail = ['b'])) := by
  simp only [valid, Bool.and_eq_true, isLetter] at h
  obtain ⟨hl, ht⟩ := h
  cases hn : natural? l with
  | none => simp [hn] at hl
  | some v =>
    have hr : 0 ≤ (v + accVal t) % 12 ∧ (v + accVal t) % 12 < 12 := by omega
    have hmem : ((v + accVal t) % 12) ∈ (List.range 12).map (fun (n : Nat) => (n : Int)) := by
      simp only [List.mem_map, List.mem_range]
      exact ⟨((v + accVal t) % 12).toNat, by omega, by omega⟩
    have key := intToNote_roundtrip
    simp only [reduceAccidentals, hn, ht, if_true, pc, Option.getD]
    obtain ⟨n, hn12, hne⟩ := List.mem_map.1 hmem
    rw [← hne]
    obtain ⟨⟨a1, b1, c1⟩, ⟨a2, b2, c2⟩⟩ := key n hn12
    by_cases hge : v + accVal t ≥ v
    · rw [if_pos hge]
      refine ⟨_, a1, b1, ?_⟩
      rcases c1 with c | c
      · exact Or.inl c
      · exact Or.inr (Or.inl ⟨by omega, c⟩)
    · rw [if_neg hge]
      refine ⟨_, a2, b2, ?_⟩
      rcases c2 with c | c
      · exact Or.inl c
      · exact Or.inr (Or.inr ⟨by omega, c⟩)

/-- non-vacuity: a mixed-order name with many accidentals meets the hypotheses -/
example : valid "C#b##bb#".toList = true ∧ noteToInt "C#b##bb#".toList = .ok 1 := by decide
example : reduceAccidentals "Bb####".toList = .ok "D".toList := by decide
example : removeRedundant "Eb##b".toList = .ok "E".toList := by decide
example : noteToInt "H".toList = .error .noteFormat ∧ noteToInt "C#x".toList = .error .noteFormat := by decide

end Mingus.Props.C01
