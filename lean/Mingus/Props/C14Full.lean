import Mingus.Props.C14
/-
  C14 — every bar except the last is full, after ANY history of `add_notes` (any instrument, accepted, refused or
  range-rejected items), and the lengths of the entries are exactly the accepted lengths.
-/
namespace Mingus.Props.C14
open Mingus Mingus.Containers

/-- every bar except the last is full -/
def AllButLastFull (bars : List Bar) : Prop := ∀ b ∈ bars.dropLast, b.isFull = true

theorem dropLast_snoc_dropLast {α} (l : List α) (x : α) : (l ++ [x]).dropLast = l := by simp

theorem mem_of_mem_dropLast_or_last {α} (l : List α) (x : α) (hx : x ∈ l) : x ∈ l.dropLast ∨ l.getLast? = some x := by
  induction l with
  | nil => cases hx
  | cons a as ih =>
    cases as with
    | nil => simp at hx; subst hx; right; rfl
    | cons b bs =>
      rcases List.mem_cons.1 hx with rfl | hx
      · left; simp [List.dropLast]
      · rcases ih hx with h | h
        · left; simp only [List.dropLast_cons₂, List.mem_cons]; right; exact h
        · right; simpa [List.getLast?_cons_cons] using h

/-- the bars `add_notes` prepares keep the invariant, and when a fresh bar was opened every earlier bar is full -/
theorem prepared_full (t : Track) (h : AllButLastFull t.bars) : AllButLastFull (Track.prepared t) := by
  unfold Track.prepared
  by_cases he : t.bars.isEmpty = true
  · simp only [he, if_true]
    by_cases hf : (([({} : Bar)] : List Bar).getLast?.getD {}).isFull = true
    · simp only [hf, if_true]
      intro b hb
      rw [dropLast_snoc_dropLast] at hb
      simp only [List.mem_singleton] at hb
      subst hb
      simpa using hf
    · simp only [hf, if_false]
      intro b hb; simp at hb
  · have he' : t.bars.isEmpty = false := by simpa using he
    simp only [he', Bool.false_eq_true, if_false]
    by_cases hf : (t.bars.getLast?.getD {}).isFull = true
    · simp only [hf, if_true]
      intro b hb
      rw [dropLast_snoc_dropLast] at hb
      rcases mem_of_mem_dropLast_or_last t.bars b hb with h1 | h1
      · exact h b h1
      · simpa [h1] using hf
    · simp only [hf, if_false]
      exact h

/-- what `add_notes` leaves behind when it does not raise: the prepared bars, the last one possibly replaced -/
theorem addNotes_bars (t : Track) (c : Option NC) (v : Rat) (ok : Bool) (t' : Track) (hr : t.addNotes c v = .ok (ok, t')) :
    t'.bars = Track.prepared t ∨ ∃ x, t'.bars = (Track.prepared t).dropLast ++ [x] := by
  have key : ∀ (r : Bool × Bar) (ins : Option Instrument),
      (if r.1 then ((true, { bars := (Track.prepared t).dropLast ++ [r.2], instrument := ins }) : Bool × Track)
        else (false, { bars := Track.prepared t, instrument := ins })) = (ok, t') →
      t'.bars = Track.prepared t ∨ ∃ x, t'.bars = (Track.prepared t).dropLast ++ [x] := by
    intro r ins hr
    split at hr
    · simp only [Prod.mk.injEq] at hr
      obtain ⟨_, rfl⟩ := hr
      exact Or.inr ⟨r.2, rfl⟩
    · simp only [Prod.mk.injEq] at hr
      obtain ⟨_, rfl⟩ := hr
      exact Or.inl rfl
  unfold Track.addNotes at hr
  cases hi : t.instrument with
  | none =>
    simp only [hi, bind, Except.bind, pure, Except.pure, Except.ok.injEq] at hr
    exact key _ _ hr
  | some i =>
    cases c with
    | none =>
      simp only [hi, bind, Except.bind, pure, Except.pure, Except.ok.injEq] at hr
      exact key _ _ hr
    | some nc =>
      by_cases hcp : i.canPlay nc = true
      · simp only [hi, hcp, Bool.not_true, Bool.false_eq_true, if_false, bind, Except.bind, pure, Except.pure, Except.ok.injEq] at hr
        exact key _ _ hr
      · have hcp' : i.canPlay nc = false := by simpa using hcp
        simp [hi, hcp', bind, Except.bind, throw, throwThe, MonadExceptOf.throw] at hr

/-- **one `add_notes`** — accepted, refused, or rejected by the instrument — keeps "every bar but the last is full" -/
theorem addNotes_keeps_full (t : Track) (c : Option NC) (v : Rat) (h : AllButLastFull t.bars) (ok : Bool) (t' : Track)
    (hr : t.addNotes c v = .ok (ok, t')) : AllButLastFull t'.bars := by
  have hp := prepared_full t h
  rcases addNotes_bars t c v ok t' hr with h1 | ⟨x, h1⟩
  · rw [h1]; exact hp
  · rw [h1]
    intro b hb
    rw [dropLast_snoc_dropLast] at hb
    exact hp b hb

/-- **any history**: after any list of items run through `add_notes` on any track (with or without instrument), every
    bar except the last is full -/
theorem history_bars_full (its : List (Option NC × Rat)) : ∀ (t : Track), AllButLastFull t.bars →
    AllButLastFull (run t its).2.bars := by
  induction its with
  | nil => intro t h; exact h
  | cons it rest ih =>
    intro t h
    obtain ⟨c, v⟩ := it
    simp only [run]
    cases hr : t.addNotes c v with
    | error e => simp only; exact ih t h
    | ok r =>
      obtain ⟨ok, t'⟩ := r
      simp only
      exact ih t' (addNotes_keeps_full t c v h ok t' hr)

/-- the empty track satisfies the invariant -/
theorem empty_full : AllButLastFull ({} : Track).bars := by intro b hb; simp at hb

/-- **the sum of entry lengths is the sum of accepted lengths** (exact reciprocals of the stored values), for any history -/
theorem history_lengths (its : List (Option NC × Rat)) (t : Track) (hi : t.instrument = none) :
    ((items (run t its).2).map fun p => 1 / p.1).sum =
      ((items t).map fun p => 1 / p.1).sum + (((its.zip (run t its).1).filter (·.2)).map fun p => 1 / p.1.2).sum := by
  rw [(history_items its t hi).1, List.map_append, List.sum_append, List.map_map]
  rfl

end Mingus.Props.C14
