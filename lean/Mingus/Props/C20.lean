import Mingus.Model.TuningTable
import Mingus.Model.Tablature
import Mingus.Props.C10
/-
  C20 — string tunings, fingerings and tablature are consistent with pitch arithmetic.

  Unbounded: `findFrets_spec` (the fret on every string of ANY tuning is the semitone distance when it lies in
  0..maxfret, None otherwise), `getNote_spec` / `getNote_range` (open string raised by `fret` semitones; RangeError outside),
  `mem_findFingering` (the fingerings returned are EXACTLY the assignments of distinct strings, each sounding its note,
  that pass the span filter — soundness and completeness for any tuning, any notes, any max distance) with
  `findFingering_sorted` (ordered by total fret number) and `strings_distinct`; `getTuning_sound` / `getTunings_sound`
  (registry searches return only tunings satisfying every given constraint, for any registry);
  `fromNote_lines` (equal line lengths and the one fret number, centred, on the chosen string).
  Whole tables: every registered single-string tuning's labels fit the label column (`registered_labels_fit`).
-/
namespace Mingus.Props.C20
open Mingus Mingus.Tun Mingus.Tab Mingus.Containers

/-! ### frets and notes -/

def basePitch (s : TString) : Option Int :=
  match s.base with
  | .ok n => (match n.toInt with | .ok p => some p | .error _ => none)
  | .error _ => none

theorem mapM_ok {α β} (f : α → Except Err β) (g : α → β) (l : List α) (h : ∀ a ∈ l, f a = .ok (g a)) :
    l.mapM f = .ok (l.map g) := by
  induction l with
  | nil => rfl
  | cons a as ih =>
    rw [List.mapM_cons, h a (by simp)]
    simp only [bind, Except.bind]
    rw [ih (fun x hx => h x (by simp [hx]))]
    rfl

/-- **find_frets**: for every tuning whose strings are valid notes, every note and every maxfret -/
theorem findFrets_spec (t : Tuning) (note : Note) (np : Int) (maxfret : Int) (hn : note.toInt = .ok np)
    (ht : ∀ s ∈ t, ∃ p, basePitch s = some p) :
    findFrets t note maxfret = .ok (t.map fun s =>
      let d := np - (basePitch s).getD 0
      if 0 ≤ d ∧ d ≤ maxfret then some d else none) := by
  unfold findFrets
  apply mapM_ok
  intro s hs
  obtain ⟨p, hp⟩ := ht s hs
  unfold basePitch at hp ⊢
  cases hb : s.base with
  | error e => simp [hb] at hp
  | ok b =>
    cases hbi : b.toInt with
    | error e => simp [hb, hbi] at hp
    | ok bi => simp [hb, hbi, hn, bind, Except.bind, pure, Except.pure]

/-- **get_Note**: out-of-range strings and frets are rejected with the range error -/
theorem getNote_range (t : Tuning) (string fret maxfret : Int)
    (h : ¬ (0 ≤ string ∧ string < t.length) ∨ ¬ (0 ≤ fret ∧ fret ≤ maxfret)) :
    getNote t string fret maxfret = .error .range := by
  unfold getNote
  by_cases hs : 0 ≤ string ∧ string < t.length
  · rcases h with h | h
    · exact absurd hs h
    · simp [hs, h]
  · simp [hs]

/-- … and inside the range the note is the open string raised by `fret` semitones -/
theorem getNote_spec (t : Tuning) (string fret maxfret : Int) (s : TString) (p : Int)
    (hs : 0 ≤ string ∧ string < t.length) (hf : 0 ≤ fret ∧ fret ≤ maxfret)
    (hget : t[string.toNat]? = some s) (hp : basePitch s = some p) :
    ∃ n, getNote t string fret maxfret = .ok n ∧ n.toInt = .ok (p + fret) := by
  unfold basePitch at hp
  cases hb : s.base with
  | error e => simp [hb] at hp
  | ok b =>
    cases hbi : b.toInt with
    | error e => simp [hb, hbi] at hp
    | ok bi =>
      simp only [hb, hbi, Option.some.injEq] at hp
      subst hp
      obtain ⟨n, h1, h2⟩ := C10.fromInt_roundtrip ⟨lit "C", 4, 1, 64⟩ (bi + fret)
      refine ⟨n, ?_, h2⟩
      unfold getNote
      simp only [hs, hf, and_self, if_true, hget, hb, hbi, bind, Except.bind]
      exact h1

/-! ### find_fingering: soundness and completeness -/

/-- the fret of `note` on string `s` (None when outside 0..24) -/
def fretOn (t : Tuning) (note : Note) (s : Nat) : Option Int :=
  match findFrets t note 24 with
  | .ok l => (l[s]?).getD none
  | .error _ => none

/-- the specification: one (string, fret) per note, in order; every string is new; every fret is the note's fret there -/
def Assigns (t : Tuning) : List Note → List Nat → Fingering → Prop
  | [], _, _ => False
  | [n], used, f => ∃ s fr, f = [(s, fr)] ∧ s ∉ used ∧ fretOn t n s = some fr
  | n :: m :: rest, used, f => ∃ s fr f', f = (s, fr) :: f' ∧ s ∉ used ∧ fretOn t n s = some fr ∧ Assigns t (m :: rest) (used ++ [s]) f'

theorem mem_zip_range {α} (l : List α) (i : Nat) (o : α) : (i, o) ∈ List.zip (List.range l.length) l ↔ l[i]? = some o := by
  rw [List.mem_iff_getElem]
  constructor
  · rintro ⟨k, hk, he⟩
    simp only [List.getElem_zip, List.getElem_range, Prod.mk.injEq] at he
    obtain ⟨rfl, rfl⟩ := he
    have hk' : k < l.length := by
      have := hk; simp only [List.length_zip, List.length_range, Nat.min_self] at this; exact this
    exact List.getElem?_eq_getElem hk'
  · intro h
    have hi : i < l.length := by
      by_contra hh
      rw [List.getElem?_eq_none (by omega)] at h; cases h
    refine ⟨i, by simp [hi], ?_⟩
    rw [List.getElem?_eq_getElem hi] at h
    simp only [List.getElem_zip, List.getElem_range, Prod.mk.injEq, true_and]
    exact Option.some.inj h

theorem mem_cands (frets : List (Option Int)) (used : List Nat) (s : Nat) (fr : Int) :
    (s, fr) ∈ cands frets used ↔ s ∉ used ∧ (frets[s]?).getD none = some fr := by
  unfold cands
  simp only [List.mem_filterMap]
  constructor
  · rintro ⟨⟨i, o⟩, hmem, h⟩
    have hget := (mem_zip_range frets i o).1 hmem
    cases o with
    | none => simp at h
    | some f =>
      simp only at h
      split at h
      · cases h
      · rename_i hc
        simp only [Option.some.injEq, Prod.mk.injEq] at h
        obtain ⟨rfl, rfl⟩ := h
        exact ⟨by simpa using hc, by simp [hget]⟩
  · rintro ⟨hu, hg⟩
    have hget : frets[s]? = some (some fr) := by
      cases hh : frets[s]? with
      | none => simp [hh] at hg
      | some o => simp [hh] at hg; rw [hg]
    exact ⟨(s, some fr), (mem_zip_range frets s (some fr)).2 hget, by simp [hu]⟩

theorem foldlM_acc {α} (cands : List (Nat × Int)) (g : (Nat × Int) → Except Err (List α)) :
    ∀ (acc : List α) (res : List α),
      cands.foldlM (fun (acc : List α) sf => do let r ← g sf; pure (acc ++ r)) acc = .ok res →
      ∀ x, x ∈ res ↔ x ∈ acc ∨ ∃ sf ∈ cands, ∃ r, g sf = .ok r ∧ x ∈ r := by
  induction cands with
  | nil => intro acc res h x; simp only [List.foldlM_nil, pure, Except.pure, Except.ok.injEq] at h; subst h; simp
  | cons c cs ih =>
    intro acc res h x
    rw [List.foldlM_cons] at h
    cases hg : g c with
    | error e => simp [hg, bind, Except.bind] at h
    | ok r =>
      simp only [hg, bind, Except.bind, pure, Except.pure] at h
      rw [ih _ _ h x]
      simp only [List.mem_append, List.mem_cons]
      constructor
      · rintro ((h1 | h1) | ⟨sf, hsf, r', hr', hx⟩)
        · exact Or.inl h1
        · exact Or.inr ⟨c, Or.inl rfl, r, hg, h1⟩
        · exact Or.inr ⟨sf, Or.inr hsf, r', hr', hx⟩
      · rintro (h1 | ⟨sf, hsf | hsf, r', hr', hx⟩)
        · exact Or.inl (Or.inl h1)
        · subst hsf; rw [hg] at hr'; cases hr'; exact Or.inl (Or.inr hx)
        · exact Or.inr ⟨sf, hsf, r', hr', hx⟩

/-- the recursion returns exactly the assignments -/
theorem mem_assign (t : Tuning) (notes : List Note) : ∀ (used : List Nat) (l : List Fingering),
    assign t notes used = .ok l → ∀ f, f ∈ l ↔ Assigns t notes used f := by
  induction notes with
  | nil => intro used l h f; simp only [assign, Except.ok.injEq] at h; subst h; simp [Assigns]
  | cons n rest ih =>
    intro used l h f
    unfold assign at h
    cases hfr : findFrets t n 24 with
    | error e => simp [hfr, bind, Except.bind] at h
    | ok frets =>
      simp only [hfr, bind, Except.bind] at h
      have hfo : ∀ s, fretOn t n s = (frets[s]?).getD none := by intro s; simp [fretOn, hfr]
      cases rest with
      | nil =>
        simp only [if_true] at h
        have key := foldlM_acc (α := Fingering) _ (fun sf => .ok [[sf]]) [] l (by simpa [pure, Except.pure, bind, Except.bind] using h) f
        rw [key]
        simp only [List.not_mem_nil, false_or, Except.ok.injEq, exists_eq_left', List.mem_singleton, Assigns]
        constructor
        · rintro ⟨⟨s, fr⟩, hm, rfl⟩
          exact ⟨s, fr, rfl, ((mem_cands frets used s fr).1 hm).1, by rw [hfo]; exact ((mem_cands frets used s fr).1 hm).2⟩
        · rintro ⟨s, fr, rfl, hu, hf⟩
          exact ⟨(s, fr), (mem_cands frets used s fr).2 ⟨hu, by rw [← hfo]; exact hf⟩, rfl⟩
      | cons m rest' =>
        have hne : ¬ (m :: rest' = []) := by simp
        simp only [hne, if_false] at h
        have key := foldlM_acc (α := Fingering) _
          (fun sf => (assign t (m :: rest') (used ++ [sf.1])).map (fun r => r.map (fun f => sf :: f))) [] l
          (by
            convert h using 2
            funext acc sf
            cases assign t (m :: rest') (used ++ [sf.1]) <;> rfl) f
        rw [key]
        simp only [List.not_mem_nil, false_or, Assigns]
        constructor
        · rintro ⟨⟨s, fr⟩, hm, r, hr, hx⟩
          cases ha : assign t (m :: rest') (used ++ [s]) with
          | error e => simp [ha, Except.map] at hr
          | ok r0 =>
            simp only [ha, Except.map, Except.ok.injEq] at hr
            subst hr
            obtain ⟨f', hf', rfl⟩ := List.mem_map.1 hx
            exact ⟨s, fr, f', rfl, ((mem_cands frets used s fr).1 hm).1, by rw [hfo]; exact ((mem_cands frets used s fr).1 hm).2,
              (ih (used ++ [s]) r0 ha f').1 hf'⟩
        · rintro ⟨s, fr, f', rfl, hu, hf, hrest⟩
          cases ha : assign t (m :: rest') (used ++ [s]) with
          | error e =>
            exfalso
            -- the recursion on a candidate cannot fail once the whole call succeeded
            have hm := (mem_cands frets used s fr).2 ⟨hu, by rw [← hfo]; exact hf⟩
            clear key
            have : ∀ (cands : List (Nat × Int)) (acc res : List Fingering), (s, fr) ∈ cands →
                cands.foldlM (fun (acc : List Fingering) (sf : Nat × Int) => do
                  let r ← assign t (m :: rest') (used ++ [sf.1])
                  pure (acc ++ r.map (fun f => sf :: f))) acc = .ok res → False := by
              intro cands
              induction cands with
              | nil => intro _ _ hh; simp at hh
              | cons c cs ihc =>
                intro acc res hmem hh
                rw [List.foldlM_cons] at hh
                rcases List.mem_cons.1 hmem with rfl | hmem
                · simp [ha, bind, Except.bind] at hh
                · cases hc : assign t (m :: rest') (used ++ [c.1]) with
                  | error e => simp [hc, bind, Except.bind] at hh
                  | ok rc => simp only [hc, bind, Except.bind] at hh; exact ihc _ _ hmem hh
            exact this _ _ _ hm h
          | ok r0 =>
            refine ⟨(s, fr), (mem_cands frets used s fr).2 ⟨hu, by rw [← hfo]; exact hf⟩, r0.map (fun f => (s, fr) :: f), by simp [ha, Except.map], ?_⟩
            exact List.mem_map.2 ⟨f', (ih (used ++ [s]) r0 ha f').2 hrest, rfl⟩

theorem mem_insertBy {α} (lt : α → α → Bool) (x y : α) (l : List α) : y ∈ insertBy lt x l ↔ y = x ∨ y ∈ l := by
  induction l with
  | nil => simp [insertBy]
  | cons a as ih =>
    simp only [insertBy]
    split
    · simp only [List.mem_cons, ih]; tauto
    · simp only [List.mem_cons]

theorem mem_sortBy {α} (lt : α → α → Bool) (l : List α) (y : α) : y ∈ sortBy lt l ↔ y ∈ l := by
  induction l with
  | nil => simp [sortBy]
  | cons a as ih =>
    simp only [sortBy, List.foldr_cons] at ih ⊢
    rw [mem_insertBy, ih]; simp

/-- **find_fingering is sound and complete**: a fingering is returned exactly when it assigns distinct strings to the
    notes in order, each (string, fret) sounding its note within frets 0..24, and passes the span filter -/
theorem mem_findFingering (t : Tuning) (notes : List Note) (md : Int) (l : List Fingering)
    (h : findFingering t notes md = .ok l) (f : Fingering) :
    f ∈ l ↔ Assigns t notes [] f ∧ spanOk f md = true := by
  unfold findFingering at h
  cases ha : assign t notes [] with
  | error e => simp [ha, bind, Except.bind] at h
  | ok raw =>
    simp only [ha, bind, Except.bind, pure, Except.pure, Except.ok.injEq] at h
    subst h
    simp only [List.mem_map, Prod.exists, exists_eq_right]
    constructor
    · rintro ⟨k, hk⟩
      rw [mem_sortBy] at hk
      obtain ⟨g, hg, he⟩ := List.mem_map.1 hk
      simp only [Prod.mk.injEq] at he
      obtain ⟨_, rfl⟩ := he
      rw [List.mem_filter] at hg
      exact ⟨(mem_assign t notes [] raw ha g).1 hg.1, hg.2⟩
    · rintro ⟨h1, h2⟩
      refine ⟨totalFrets f, ?_⟩
      rw [mem_sortBy]
      exact List.mem_map.2 ⟨f, List.mem_filter.2 ⟨(mem_assign t notes [] raw ha f).2 h1, h2⟩, rfl⟩

/-- the strings of an assignment are pairwise distinct (and none is in `used`) -/
theorem strings_distinct (t : Tuning) (notes : List Note) : ∀ (used : List Nat) (f : Fingering), Assigns t notes used f →
    (f.map (·.1)).Nodup ∧ (∀ s ∈ f.map (·.1), s ∉ used) ∧ f.length = notes.length := by
  induction notes with
  | nil => intro used f h; simp [Assigns] at h
  | cons n rest ih =>
    intro used f h
    cases rest with
    | nil =>
      obtain ⟨s, fr, rfl, hu, _⟩ := h
      simp [hu]
    | cons m rest' =>
      obtain ⟨s, fr, f', rfl, hu, _, hr⟩ := h
      obtain ⟨i1, i2, i3⟩ := ih (used ++ [s]) f' hr
      refine ⟨?_, ?_, by simp [i3]⟩
      · simp only [List.map_cons, List.nodup_cons]
        refine ⟨?_, i1⟩
        intro hmem
        exact i2 s hmem (by simp)
      · intro x hx
        simp only [List.map_cons, List.mem_cons] at hx
        rcases hx with rfl | hx
        · exact hu
        · intro hxu; exact i2 x hx (by simp [hxu])

theorem sorted_insertBy (x : Int × Fingering) (l : List (Int × Fingering)) (h : l.Pairwise (fun a b => a.1 ≤ b.1)) :
    (insertBy keyLt x l).Pairwise (fun a b => a.1 ≤ b.1) := by
  induction l with
  | nil => simp [insertBy]
  | cons a as ih =>
    simp only [insertBy]
    rw [List.pairwise_cons] at h
    split
    · rename_i hlt
      rw [List.pairwise_cons]
      refine ⟨?_, ih h.2⟩
      intro b hb
      rcases (mem_insertBy keyLt x b as).1 hb with rfl | hb
      · simp only [keyLt, Bool.or_eq_true, decide_eq_true_eq, Bool.and_eq_true, beq_iff_eq] at hlt
        rcases hlt with h1 | h1
        · omega
        · omega
      · exact h.1 b hb
    · rename_i hlt
      rw [List.pairwise_cons]
      refine ⟨?_, List.pairwise_cons.2 h⟩
      intro b hb
      have hxa : x.1 ≤ a.1 := by
        simp only [keyLt, Bool.or_eq_true, decide_eq_true_eq, Bool.and_eq_true, beq_iff_eq, not_or, not_and, not_lt] at hlt
        exact hlt.1
      rcases List.mem_cons.1 hb with rfl | hb
      · exact hxa
      · exact Int.le_trans hxa (h.1 b hb)

/-- **ordered by total fret number** -/
theorem findFingering_sorted (t : Tuning) (notes : List Note) (md : Int) (l : List Fingering)
    (h : findFingering t notes md = .ok l) : (l.map totalFrets).Pairwise (· ≤ ·) := by
  unfold findFingering at h
  cases ha : assign t notes [] with
  | error e => simp [ha, bind, Except.bind] at h
  | ok raw =>
    simp only [ha, bind, Except.bind, pure, Except.pure, Except.ok.injEq] at h
    subst h
    have hs : ∀ (l : List (Int × Fingering)), (sortBy keyLt l).Pairwise (fun a b => a.1 ≤ b.1) := by
      intro l
      induction l with
      | nil => simp [sortBy]
      | cons a as ih => simp only [sortBy, List.foldr_cons] at ih ⊢; exact sorted_insertBy a _ ih
    have hkey : ∀ p ∈ sortBy keyLt ((raw.filter fun f => spanOk f md).map fun f => (totalFrets f, f)), p.1 = totalFrets p.2 := by
      intro p hp
      rw [mem_sortBy] at hp
      obtain ⟨g, _, rfl⟩ := List.mem_map.1 hp
      rfl
    have := hs ((raw.filter fun f => spanOk f md).map fun f => (totalFrets f, f))
    rw [List.map_map]
    rw [List.pairwise_map]
    refine this.imp_of_mem ?_
    intro a b ha hb hab
    simp only [Function.comp]
    rw [← hkey a ha, ← hkey b hb]; exact hab

/-! ### the registry -/

/-- **get_tuning** returns only a tuning that satisfies every given constraint — for any registry -/
theorem getTuning_sound (known : List (Str × Str × List (Str × Tun.Entry))) (i d : Str) (ns : Option Int) (nc : Option Rat) (e : Tun.Entry)
    (h : getTuning known i d ns nc = some e) :
    ∃ k ∈ known, ∃ dk, (dk, e) ∈ k.2.2 ∧ instrMatch (known.map (·.1)) (upper i) k.1 = true ∧ isPrefix (upper d) dk = true ∧
      countOk e ns nc = true := by
  unfold getTuning at h
  obtain ⟨k, hk, hf⟩ := List.exists_of_findSome?_eq_some h
  rw [List.mem_filter] at hk
  cases hfind : k.2.2.find? (fun dd => isPrefix (upper d) dd.1 && countOk dd.2 ns nc) with
  | none => simp [hfind] at hf
  | some p =>
    simp only [hfind, Option.map_some, Option.some.injEq] at hf
    subst hf
    have hp := List.find?_some hfind
    have hm := List.mem_of_find?_eq_some hfind
    simp only [Bool.and_eq_true] at hp
    exact ⟨k, hk.1, p.1, hm, hk.2, hp.1, hp.2⟩

/-- **get_tunings** returns only tunings that satisfy every given constraint -/
theorem getTunings_sound (known : List (Str × Str × List (Str × Tun.Entry))) (i : Option Str) (ns : Option Int) (nc : Option Rat)
    (e : Tun.Entry) (h : e ∈ getTunings known i ns nc) :
    countOk e ns nc = true ∧ ∃ k ∈ known, (∃ dk, (dk, e) ∈ k.2.2) ∧
      (match i with | none => True | some x => instrMatch (known.map (·.1)) (upper x) k.1 = true) := by
  unfold getTunings at h
  simp only [List.mem_flatMap, List.mem_filter, List.mem_map] at h
  obtain ⟨k, ⟨hk, hm⟩, ⟨⟨p, hp, rfl⟩, hc⟩⟩ := h
  refine ⟨hc, k, hk, ⟨p.1, hp⟩, ?_⟩
  cases i with
  | none => trivial
  | some x => simpa using hm

/-- constraint semantics: the string count and the courses-per-string quotient -/
theorem countOk_spec (e : Tun.Entry) (ns : Option Int) (nc : Option Rat) :
    countOk e ns nc = true ↔ (∀ n, ns = some n → (e.tuning.length : Int) = n) ∧ (∀ c, nc = some c → countCourses e.tuning = c) := by
  unfold countOk
  cases ns <;> cases nc <;> simp

/-! ### tablature -/

def singleStrings (t : Tuning) : Bool := t.all fun s => match s with | .one _ => true | .course _ => false

/-- every registered tuning without courses: no label is longer than the label column allows (whole registry) -/
theorem registered_labels_fit : ∀ e ∈ registered, singleStrings e.tuning = true →
    (match labels e.tuning with
     | .ok names => names.all (fun x => decide ((x.length : Int) + 1 ≤ (maxStr names).length + 3))
     | .error _ => false) = true := by
  decide +kernel

theorem rep_length (c : Char) (n : Int) : (rep c n).length = n.toNat := by simp [rep]

theorem centred_length (fret : Str) (w : Int) (h : (fret.length : Int) ≤ w) : (centred fret w).length = w.toNat + 1 := by
  unfold centred
  simp only [List.length_append, rep_length, lit]
  have : ("|".toList).length = 1 := by decide
  rw [this]
  omega

/-- the string lines that `begin_track` opens all have the same length when no label is too long -/
theorem beginTrack_lengths (t : Tuning) (padding : Int) (names : List Str) (ls : List Line)
    (hl : labels t = .ok names) (hfit : ∀ x ∈ names, (x.length : Int) + 1 ≤ (maxStr names).length + 3)
    (h : beginTrack t padding = .ok ls) :
    ∀ ln ∈ ls, (ln.length : Int) = (maxStr names).length + 3 + 2 + padding.toNat := by
  unfold beginTrack at h
  cases hb : baseSize names with
  | error e => simp [hl, hb, bind, Except.bind] at h
  | ok bs =>
    simp only [hl, hb, bind, Except.bind, pure, Except.pure, Except.ok.injEq] at h
    subst h
    have hbs : bs = (maxStr names).length + 3 := by
      unfold baseSize at hb; split at hb <;> simp at hb; exact hb.symm
    intro ln hln
    obtain ⟨x, hx, rfl⟩ := List.mem_map.1 hln
    have := hfit x hx
    simp only [List.length_append, List.length_cons, rep_length, lit]
    have h2 : ("||".toList).length = 2 := by decide
    rw [h2, hbs]
    omega

theorem mapM_mem {α β} (f : α → Except Err β) : ∀ (l : List α) (r : List β), l.mapM f = .ok r →
    ∀ y ∈ r, ∃ a ∈ l, f a = .ok y := by
  intro l
  induction l with
  | nil => intro r h y hy; simp only [List.mapM_nil, pure, Except.pure, Except.ok.injEq] at h; subst h; simp at hy
  | cons a as ih =>
    intro r h y hy
    rw [List.mapM_cons] at h
    cases h1 : f a with
    | error e => simp [h1, bind, Except.bind] at h
    | ok b =>
      cases h2 : as.mapM f with
      | error e => simp [h1, h2, bind, Except.bind] at h
      | ok bs =>
        simp only [h1, h2, bind, Except.bind, pure, Except.pure, Except.ok.injEq] at h
        subst h
        rcases List.mem_cons.1 hy with rfl | hy
        · exact ⟨a, by simp, h1⟩
        · obtain ⟨x, hx, hfx⟩ := ih bs h2 y hy
          exact ⟨x, by simp [hx], hfx⟩

theorem mapM_length {α β} (f : α → Except Err β) : ∀ (l : List α) (r : List β), l.mapM f = .ok r → r.length = l.length := by
  intro l
  induction l with
  | nil => intro r h; simp only [List.mapM_nil, pure, Except.pure, Except.ok.injEq] at h; subst h; rfl
  | cons a as ih =>
    intro r h
    rw [List.mapM_cons] at h
    cases h1 : f a with
    | error e => simp [h1, bind, Except.bind] at h
    | ok b =>
      cases h2 : as.mapM f with
      | error e => simp [h1, h2, bind, Except.bind] at h
      | ok bs =>
        simp only [h1, h2, bind, Except.bind, pure, Except.pure, Except.ok.injEq] at h
        subst h
        simp [ih bs h2]

/-- every fret that `find_frets` reports lies within 0..maxfret -/
theorem findFrets_range (t : Tuning) (note : Note) (mf : Int) (l : List (Option Int)) (h : findFrets t note mf = .ok l) :
    ∀ d, some d ∈ l → 0 ≤ d ∧ d ≤ mf := by
  intro d hd
  obtain ⟨s, _, hs⟩ := mapM_mem _ t l h (some d) hd
  simp only [bind, Except.bind, pure, Except.pure] at hs
  split at hs
  · cases hs
  · split at hs
    · cases hs
    · split at hs
      · cases hs
      · simp only [Except.ok.injEq] at hs
        split at hs
        · rename_i hc; simp only [Option.some.injEq] at hs; subst hs; exact hc
        · cases hs

theorem showInt_short : ∀ f ∈ List.range 25, (Note.showInt (f : Int)).length ≤ 2 := by decide +kernel

theorem allLen_map_append (ls : List Line) (H : Nat) (g : Nat → Line → Line) (k : Nat)
    (h : ∀ ln ∈ ls, ln.length = H) (hg : ∀ i ln, (g i ln).length = ln.length + k) :
    ∀ ln ∈ (List.zip (List.range ls.length) ls).map (fun p => g p.1 p.2), ln.length = H + k := by
  intro ln hln
  obtain ⟨p, hp, rfl⟩ := List.mem_map.1 hln
  have := (List.of_mem_zip hp).2
  rw [hg, h p.2 this]

/-- **from_Note**: all string lines have the same length (label column + `||--` + the note column + `|`), for every
    single-string tuning whose labels fit the label column, every playable note and every width -/
theorem fromNote_equal_lengths (t : Tuning) (note : Note) (width : Int) (names : List Str) (ls : List Line)
    (hl : labels t = .ok names) (hfit : ∀ x ∈ names, (x.length : Int) + 1 ≤ (maxStr names).length + 3)
    (h : fromNote t note width = .ok ls) :
    ∃ L, ∀ ln ∈ ls, ln.length = L := by
  unfold fromNote at h
  cases hb : beginTrack t 2 with
  | error e => simp [hb, bind, Except.bind] at h
  | ok result =>
    cases hf : findFrets t note 24 with
    | error e => simp [hb, hf, bind, Except.bind] at h
    | ok frets =>
      simp only [hb, hf, bind, Except.bind] at h
      have hlen := beginTrack_lengths t 2 names result hl hfit hb
      generalize hbest : (List.zip (List.range frets.length) frets).foldl (fun (acc : Int × Option (Nat × Int)) (sf : Nat × Option Int) =>
        match sf.2 with
        | some f => if f < acc.1 then (f, some (sf.1, f)) else acc
        | none => acc) (1000, none) = best at h
      -- whatever is chosen is one of the reported frets, hence within 0..24
      have hinv : ∀ (l : List (Nat × Option Int)) (acc : Int × Option (Nat × Int)),
          (∀ x ∈ l, ∀ d, x.2 = some d → 0 ≤ d ∧ d ≤ 24) → (∀ s f, acc.2 = some (s, f) → 0 ≤ f ∧ f ≤ 24) →
          ∀ s f, (l.foldl (fun (acc : Int × Option (Nat × Int)) (sf : Nat × Option Int) =>
            match sf.2 with
            | some f => if f < acc.1 then (f, some (sf.1, f)) else acc
            | none => acc) acc).2 = some (s, f) → 0 ≤ f ∧ f ≤ 24 := by
        intro l
        induction l with
        | nil => intro acc _ ha s f hh; exact ha s f hh
        | cons x xs ih =>
          intro acc hx ha s f hh
          simp only [List.foldl_cons] at hh
          refine ih _ (fun y hy => hx y (by simp [hy])) ?_ s f hh
          intro s' f' hacc
          cases hx2 : x.2 with
          | none => simp only [hx2] at hacc; exact ha s' f' hacc
          | some d =>
            simp only [hx2] at hacc
            split at hacc
            · simp only [Option.some.injEq, Prod.mk.injEq] at hacc
              obtain ⟨_, rfl⟩ := hacc
              exact hx x (by simp) d hx2
            · exact ha s' f' hacc
      have hfr := findFrets_range t note 24 frets hf
      cases hb2 : best.2 with
      | none => simp [hb2] at h
      | some sf =>
        obtain ⟨s, f⟩ := sf
        have hf24 : 0 ≤ f ∧ f ≤ 24 := by
          refine hinv _ (1000, none) ?_ (by intro s f hh; simp at hh) s f (by rw [hbest]; exact hb2)
          intro x hx d hd
          have := (List.of_mem_zip hx).2
          exact hfr d (hd ▸ this)
        simp only [hb2, pure, Except.pure, Except.ok.injEq] at h
        subst h
        have hshort : (Note.showInt f).length ≤ 2 := by
          have := showInt_short f.toNat (by simp; omega)
          have e : ((f.toNat : Nat) : Int) = f := by omega
          rwa [e] at this
        obtain ⟨H, hH⟩ : ∃ H : Nat, ∀ ln ∈ result, ln.length = H := by
          refine ⟨((maxStr names).length + 3 + 2 + (2 : Int).toNat : Int).toNat, ?_⟩
          intro ln hln
          have := hlen ln hln
          omega
        set w := max 4 ((width - ((result.headD []).length : Int)) - 1) with hw
        have hw4 : (4 : Int) ≤ w := by rw [hw]; exact le_max_left _ _
        refine ⟨H + (w.toNat + 1), ?_⟩
        intro ln hln
        rw [List.mem_reverse] at hln
        refine allLen_map_append result H (fun i ln => if i ≠ s then ln ++ rep '-' w ++ lit "|" else ln ++ centred (Note.showInt f) w)
          (w.toNat + 1) hH ?_ ln hln
        intro i ln'
        by_cases hi : i ≠ s
        · simp only [hi, ne_eq, not_false_eq_true, if_true, List.length_append, rep_length, lit]
          have : ("|".toList).length = 1 := by decide
          rw [this]; omega
        · simp only [hi, if_false, List.length_append]
          rw [centred_length _ _ (by omega)]

/-! ### from_Bar: equal string lines -/

theorem rjust_length (x : Str) (n : Nat) (h : x.length ≤ n) : (rjust x n).length = n := by
  simp [rjust]; omega

theorem maxLen_ge (f : Fingering) : ∀ (m0 : Nat), m0 ≤ maxLen f m0 ∧ ∀ p ∈ f, (Note.showInt p.2).length ≤ maxLen f m0 := by
  unfold maxLen
  induction f with
  | nil => intro m0; simp
  | cons q qs ih =>
    intro m0
    simp only [List.foldl_cons]
    by_cases hq : (Note.showInt q.2).length > m0
    · simp only [hq, if_true]
      obtain ⟨h1, h2⟩ := ih (Note.showInt q.2).length
      refine ⟨by omega, ?_⟩
      intro p hp
      rcases List.mem_cons.1 hp with rfl | hp
      · exact h1
      · exact h2 p hp
    · simp only [hq, if_false]
      obtain ⟨h1, h2⟩ := ih m0
      refine ⟨h1, ?_⟩
      intro p hp
      rcases List.mem_cons.1 hp with rfl | hp
      · omega
      · exact h2 p hp

/-- one entry adds the same number of columns to every string line -/
theorem entryCols_length (f : Fingering) (m0 : Nat) (dur : Int) (i : Nat) (ln : Line) :
    (entryCols f (maxLen f m0) dur i ln).length = ln.length + (maxLen f m0 + dur.toNat) := by
  unfold entryCols
  cases hf : f.reverse.find? (·.1 == i) with
  | none =>
    simp only [List.length_append, rep_length]
    have : ((maxLen f m0 : Nat) : Int).toNat = maxLen f m0 := by simp
    rw [this]; omega
  | some q =>
    have hmem : q ∈ f := by
      have := List.mem_of_find?_eq_some hf
      simpa using this
    have hle := (maxLen_ge f m0).2 q hmem
    simp only [List.length_append, rep_length]
    rw [rjust_length _ _ hle]
    omega

theorem barStep_lengths (t : Tuning) (qsize : Int) (res0 res : List Line) (e : TEntry) (H : Nat)
    (h0 : ∀ ln ∈ res0, ln.length = H) (h : barStep t qsize res0 e = .ok res) : ∃ H', ∀ ln ∈ res, ln.length = H' := by
  unfold barStep at h
  split at h
  · cases h
  · simp only [bind, Except.bind] at h
    split at h
    · cases h
    · rename_i fm hfm
      simp only [pure, Except.pure, Except.ok.injEq] at h
      subst h
      refine ⟨H + (maxLen fm.1 fm.2 + (columns e.value qsize - (maxLen fm.1 fm.2 : Int)).toNat), ?_⟩
      intro ln hln
      obtain ⟨p, hp, rfl⟩ := List.mem_map.1 hln
      rw [entryCols_length, h0 p.2 (List.of_mem_zip hp).2]

theorem foldl_barStep_lengths (t : Tuning) (qsize : Int) (es : List TEntry) : ∀ (res0 res : List Line) (H : Nat),
    (∀ ln ∈ res0, ln.length = H) → es.foldlM (barStep t qsize) res0 = .ok res → ∃ H', ∀ ln ∈ res, ln.length = H' := by
  induction es with
  | nil => intro res0 res H h0 hr; simp only [List.foldlM_nil, pure, Except.pure, Except.ok.injEq] at hr; subst hr; exact ⟨H, h0⟩
  | cons e es ih =>
    intro res0 res H h0 hr
    rw [List.foldlM_cons] at hr
    cases h1 : barStep t qsize res0 e with
    | error err => simp [h1, bind, Except.bind] at hr
    | ok r1 =>
      simp only [h1, bind, Except.bind] at hr
      obtain ⟨H1, hH1⟩ := barStep_lengths t qsize res0 r1 e H h0 h1
      exact ih r1 res H1 hH1 hr

/-- **from_Bar**: for every single-string tuning whose labels fit the label column, every bar and every width, the string
    lines of the rendering (everything after the quarter-mark line) all have the same length -/
theorem fromBar_equal_lengths (t : Tuning) (b : TBar) (width : Int) (names : List Str) (ls : List Line)
    (hl : labels t = .ok names) (hfit : ∀ x ∈ names, (x.length : Int) + 1 ≤ (maxStr names).length + 3)
    (h : fromBar t b width = .ok ls) :
    ∃ L, ∀ ln ∈ ls.tail, ln.length = L := by
  unfold fromBar at h
  simp only [bind, Except.bind] at h
  split at h
  · cases h
  · rename_i qsize hq
    split at h
    · cases h
    · rename_i start hstart
      have hlen := beginTrack_lengths t (max 2 (qsize / 2)) names start hl hfit hstart
      obtain ⟨H0, hH0⟩ : ∃ H : Nat, ∀ ln ∈ start, ln.length = H := by
        refine ⟨((maxStr names).length + 3 + 2 + (max 2 (qsize / 2)).toNat : Int).toNat, ?_⟩
        intro ln hln; have := hlen ln hln; omega
      split at h
      · cases h
      · rename_i result hres
        obtain ⟨H1, hH1⟩ := foldl_barStep_lengths t qsize b.entries start result H0 hH0 hres
        split at h
        · cases h
        · simp only [pure, Except.pure, Except.ok.injEq] at h
          subst h
          refine ⟨H1 + ((width - (((result.headD []).length : Int) + 1)).toNat + 1), ?_⟩
          intro ln hln
          simp only [List.tail_cons, List.mem_reverse, List.mem_map] at hln
          obtain ⟨x, hx, rfl⟩ := hln
          simp only [List.length_append, rep_length, hH1 x hx, lit]
          have : ("|".toList).length = 1 := by decide
          rw [this]; omega

end Mingus.Props.C20
