import Mingus.Model.Containers
import Mathlib.Tactic.Linarith
import Mathlib.Tactic.Ring
import Mathlib.Tactic.FieldSimp
import Mathlib.Algebra.Order.Field.Rat
/-
  C13 — bar time accounting is exact under any placement history.
  The specification is the *exact* bar over ℚ (lengths are 1/value computed rationally).  The accounting theorems are
  inductions over arbitrary operation sequences.  The implementation's float bar (Model/Containers.lean, IEEE-exact) is
  compared with the exact bar on concrete histories in the kernel: it agrees on dyadic values and differs on the
  recorded finding (an exact fill refused after rounding).
-/
namespace Mingus.Props.C13
open Mingus Mingus.Containers

/-! ### The exact bar -/
structure XEntry where
  start : Rat
  value : Rat
  content : Option NC

structure XBar where
  length : Rat
  current : Rat := 0
  entries : List XEntry := []

/-- total length of the entries, computed exactly -/
def total (es : List XEntry) : Rat := (es.map fun e => 1 / e.value).sum

inductive XOp
  | place (content : Option NC) (v : Rat)      -- notes or rest with value v
  | removeLast
  | setItem (i : Nat) (content : Option NC)
  | placeAt (at_ : Rat) (f : NC → NC)          -- add notes to the sounding entry that starts at `at_`

def accepts (b : XBar) (v : Rat) : Prop := b.current + 1 / v ≤ b.length ∨ b.length = 0
instance (b : XBar) (v : Rat) : Decidable (accepts b v) := by unfold accepts; infer_instance

def setContentAt : List XEntry → Nat → Option NC → List XEntry
  | [], _, _ => []
  | e :: t, 0, c => { e with content := c } :: t
  | e :: t, i+1, c => e :: setContentAt t i c

def xstep (b : XBar) : XOp → XBar
  | .place c v =>
    if accepts b v then { b with entries := b.entries ++ [⟨b.current, v, c⟩], current := b.current + 1 / v } else b
  | .removeLast =>
    match b.entries.getLast? with
    | none => b
    | some e => { b with entries := b.entries.dropLast, current := b.current - 1 / e.value }
  | .setItem i c => { b with entries := setContentAt b.entries i c }
  | .placeAt a f => { b with entries := b.entries.map fun e => if e.start = a then { e with content := e.content.map f } else e }

/-- each entry starts where the entries before it end -/
def StartsOK : Rat → List XEntry → Prop
  | _, [] => True
  | s, e :: es => e.start = s ∧ StartsOK (s + 1 / e.value) es

def Inv (b : XBar) : Prop := StartsOK 0 b.entries ∧ b.current = total b.entries

theorem total_append (a b : List XEntry) : total (a ++ b) = total a + total b := by
  simp [total, List.sum_append]

theorem starts_append (s : Rat) (a : List XEntry) (e : XEntry) :
    StartsOK s (a ++ [e]) ↔ StartsOK s a ∧ e.start = s + total a := by
  induction a generalizing s with
  | nil => simp [StartsOK, total]
  | cons x xs ih =>
    simp only [List.cons_append, StartsOK, ih, total, List.map_cons, List.sum_cons]
    constructor
    · rintro ⟨h1, h2, h3⟩; exact ⟨⟨h1, h2⟩, by rw [h3]; ring⟩
    · rintro ⟨⟨h1, h2⟩, h3⟩; exact ⟨h1, h2, by rw [h3]; ring⟩

theorem starts_dropLast (s : Rat) (es : List XEntry) (h : StartsOK s es) : StartsOK s es.dropLast := by
  induction es generalizing s with
  | nil => trivial
  | cons x xs ih =>
    cases xs with
    | nil => trivial
    | cons y ys =>
      simp only [List.dropLast_cons₂, StartsOK] at h ⊢
      exact ⟨h.1, ih _ h.2⟩

/-- start beats and values of the entries (everything the accounting looks at) -/
def timing (es : List XEntry) : List (Rat × Rat) := es.map fun e => (e.start, e.value)

theorem timing_determines (a b : List XEntry) (h : timing a = timing b) (s : Rat) :
    (StartsOK s a ↔ StartsOK s b) ∧ total a = total b := by
  induction a generalizing b s with
  | nil =>
    cases b with
    | nil => simp
    | cons y ys => simp [timing] at h
  | cons x xs ih =>
    cases b with
    | nil => simp [timing] at h
    | cons y ys =>
      simp only [timing, List.map_cons, List.cons.injEq, Prod.mk.injEq] at h
      obtain ⟨⟨hs, hv⟩, ht⟩ := h
      have := ih ys ht (s + 1 / x.value)
      simp only [StartsOK, total, List.map_cons, List.sum_cons, hs, hv]
      rw [hv] at this
      exact ⟨by rw [this.1], by have := this.2; simp only [total] at this; rw [this]⟩

theorem timing_setContentAt (es : List XEntry) (i : Nat) (c : Option NC) : timing (setContentAt es i c) = timing es := by
  induction es generalizing i with
  | nil => rfl
  | cons e t ih =>
    cases i with
    | zero => simp [setContentAt, timing]
    | succ k => simp only [setContentAt, timing, List.map_cons] at ih ⊢; rw [ih k]

theorem timing_placeAt (es : List XEntry) (a : Rat) (f : NC → NC) :
    timing (es.map fun e => if e.start = a then { e with content := e.content.map f } else e) = timing es := by
  simp only [timing, List.map_map]
  apply List.map_congr_left
  intro e _
  simp only [Function.comp]
  split <;> rfl

theorem step_inv (b : XBar) (op : XOp) (h : Inv b) : Inv (xstep b op) := by
  obtain ⟨h1, h2⟩ := h
  cases op with
  | place c v =>
    simp only [xstep]
    split
    · refine ⟨(starts_append 0 _ _).2 ⟨h1, by simp [h2]⟩, ?_⟩
      simp [total_append, total, h2]
    · exact ⟨h1, h2⟩
  | removeLast =>
    simp only [xstep]
    cases hl : b.entries.getLast? with
    | none => exact ⟨h1, h2⟩
    | some e =>
      refine ⟨starts_dropLast 0 _ h1, ?_⟩
      have hsplit : b.entries = b.entries.dropLast ++ [e] := by
        have hne : b.entries ≠ [] := by intro e0; simp [e0] at hl
        rw [List.getLast?_eq_some_getLast hne] at hl
        simp only [Option.some.injEq] at hl
        rw [← hl]; exact (List.dropLast_concat_getLast hne).symm
      simp only
      rw [h2]
      conv_lhs => rw [hsplit]
      simp [total_append, total]
  | setItem i c =>
    simp only [xstep]
    have := timing_determines _ _ (timing_setContentAt b.entries i c) 0
    exact ⟨this.1.2 h1, by rw [this.2]; exact h2⟩
  | placeAt a f =>
    simp only [xstep]
    have := timing_determines _ _ (timing_placeAt b.entries a f) 0
    exact ⟨this.1.2 h1, by rw [this.2]; exact h2⟩

/-- the accounting invariant holds after ANY sequence of operations, in any meter -/
theorem history_inv (len : Rat) (ops : List XOp) : Inv (ops.foldl xstep { length := len }) := by
  have : ∀ b, Inv b → Inv (ops.foldl xstep b) := by
    induction ops with
    | nil => intro b h; exact h
    | cons op t ih => intro b h; exact ih _ (step_inv b op h)
  exact this _ ⟨trivial, by simp [total]⟩

/-- current beat + space left = bar length (space left is defined as their difference, as in the code) -/
theorem current_plus_space (b : XBar) : b.current + (b.length - b.current) = b.length := by ring

/-- acceptance rule, and what acceptance / refusal do -/
theorem place_spec (b : XBar) (c : Option NC) (v : Rat) (h : Inv b) :
    (accepts b v ↔ total b.entries + 1 / v ≤ b.length ∨ b.length = 0) ∧
    (accepts b v → (xstep b (.place c v)).entries = b.entries ++ [⟨total b.entries, v, c⟩]) ∧
    (¬ accepts b v → xstep b (.place c v) = b) := by
  refine ⟨by unfold accepts; rw [h.2], ?_, ?_⟩
  · intro ha; simp [xstep, ha, h.2]
  · intro ha; simp [xstep, ha]

/-- assigning content to an index, or adding notes at a beat, changes only contents -/
theorem content_ops_keep_timing (b : XBar) (i : Nat) (c : Option NC) (a : Rat) (f : NC → NC) :
    timing (xstep b (.setItem i c)).entries = timing b.entries ∧ (xstep b (.setItem i c)).current = b.current ∧
    timing (xstep b (.placeAt a f)).entries = timing b.entries ∧ (xstep b (.placeAt a f)).current = b.current :=
  ⟨timing_setContentAt _ _ _, rfl, timing_placeAt _ _ _, rfl⟩

theorem setItem_only_that_entry (es : List XEntry) (i : Nat) (c : Option NC) (j : Nat) (hj : j ≠ i) :
    (setContentAt es i c)[j]? = es[j]? := by
  induction es generalizing i j with
  | nil => rfl
  | cons e t ih =>
    cases i with
    | zero =>
      cases j with
      | zero => exact absurd rfl hj
      | succ k => simp [setContentAt]
    | succ n =>
      cases j with
      | zero => simp [setContentAt]
      | succ k => simp only [setContentAt, List.getElem?_cons_succ]; exact ih n k (by omega)

/-- full = non-empty and nothing left (to within a thousandth of a whole note), never for the unbounded meter -/
def isFullX (b : XBar) : Bool := !(b.length == 0) && !b.entries.isEmpty && decide (b.length - b.current ≤ 1 / 1000)
theorem isFull_spec (b : XBar) :
    isFullX b = true ↔ b.entries ≠ [] ∧ b.length ≠ 0 ∧ b.length - b.current ≤ 1 / 1000 := by
  simp [isFullX]; tauto

/-! ### set_meter -/
theorem setMeter_spec (b : Bar) (count : Int) (unit : Rat) :
    (Bar.isPow2Rat unit = true → ∃ b', Bar.setMeter b count unit = .ok b' ∧ b'.meter = (count, unit)) ∧
    (Bar.setMeter b 0 0 = .ok { b with meter := (0, 0), length := 0 }) ∧
    (Bar.isPow2Rat unit = false → ¬ (count = 0 ∧ unit = 0) → Bar.setMeter b count unit = .error .meterFormat) := by
  have h00 : Bar.isPow2Rat 0 = false := by decide +kernel
  refine ⟨?_, by simp [Bar.setMeter, h00, pure, Except.pure], ?_⟩
  · intro h
    exact ⟨{ b with meter := (count, unit), length := F64.mul count (F64.div 1 unit) },
      by simp [Bar.setMeter, h, pure, Except.pure], rfl⟩
  · intro h hn; simp [Bar.setMeter, h, hn, throw, throwThe, MonadExceptOf.throw]

/-! ### The implementation's float bar against the exact bar (kernel evaluation of the IEEE-exact model) -/
/-- place the same value `n` times in the float bar: the accept/refuse answers and the final bar -/
def fill (b : Bar) (content : Option NC) (v : Rat) : Nat → List Bool × Bar
  | 0 => ([], b)
  | n+1 => let r := fill b content v n; let p := r.2.place content v; (r.1 ++ [p.1], p.2)

def xfill (b : XBar) (v : Rat) : Nat → List Bool × XBar
  | 0 => ([], b)
  | n+1 => let r := xfill b v n; (r.1 ++ [decide (accepts r.2 v)], xstep r.2 (.place none v))

def meters : List (Int × Rat) := [(4, 4), (3, 4), (6, 8), (12, 8), (2, 2), (5, 4)]
def dyadicValues : List Rat := [1, 2, 4, 8, 16, 32, 64, 128]

/-- on power-of-two values the float bar and the exact bar agree step for step through a complete fill and the first
    refused placement, in every listed meter -/
def dyadicAgree (m : Int × Rat) (v : Rat) : Bool :=
  match Bar.new (lit "C") m.1 m.2 with
  | .ok b =>
    let len : Rat := (m.1 : Rat) / m.2
    let n := (len * v).floor.toNat + 1
    let f := fill b none v n
    let x := xfill { length := len } v n
    f.1 == x.1 && f.2.current == x.2.current && f.2.length == len &&
      f.2.entries.map (fun e => (e.start, e.value)) == x.2.entries.map (fun e => (e.start, e.value))
  | _ => false
theorem float_agrees_on_dyadic_fills : ∀ m ∈ meters, ∀ v ∈ dyadicValues, dyadicAgree m v = true := by decide +kernel

/-- full-strength acceptance clause for the float bar (false: see the counterexample = known finding C13-float-exact-fill) -/
def C13_float_full : Prop :=
  ∀ (v : Rat) (n : Nat), (fill {} none v n).1 = (xfill { length := 1 } v n).1

/-- the recorded finding, pinned: twenty quintuplet sixteenths (value 20) fill a 4/4 bar exactly, the exact bar accepts all
    of them, the float bar refuses the twentieth -/
theorem float_counterexample : ¬ C13_float_full := by
  intro h
  have := h 20 20
  revert this; decide +kernel

/-- … and it never over-fills: the refused placement is the only difference on that history -/
theorem float_counterexample_shape :
    (fill {} none 20 20).1 = List.replicate 19 true ++ [false] ∧ (xfill { length := 1 } 20 20).1 = List.replicate 20 true := by
  decide +kernel

/-- non-vacuity of the exact-bar theorems: a history with notes, rests, a removal and content changes -/
example : (([XOp.place (some []) 4, .place none 8, .removeLast, .place none (8/3), .setItem 0 none].foldl xstep { length := 3/4 }).current = 5/8) := by
  decide +kernel

end Mingus.Props.C13
