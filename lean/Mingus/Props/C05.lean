import Mingus.Lemmas.Scales
/-
  C05 — every scale realises its defining step pattern; scale recognition is exact.
  * free-tonic classes (Diatonic with any semitone positions, the seven modes, WholeTone, Octatonic):
    unbounded in the tonic's accidentals and in the octave count;
  * key-derived classes (major/minor families, Chromatic): the whole finite tonic table in the kernel,
    unbounded in the octave count;
  * recognition: arbitrary note lists.
-/
namespace Mingus.Props.C05
open Mingus Mingus.Notes Mingus.Keys Mingus.Intervals Mingus.Scales

/-! ### Spec: the defining step patterns -/
def pattern : Kind → List Int
  | .ionian => [2,2,1,2,2,2,1] | .dorian => [2,1,2,2,2,1,2] | .phrygian => [1,2,2,2,1,2,2]
  | .lydian => [2,2,2,1,2,2,1] | .mixolydian => [2,2,1,2,2,1,2] | .aeolian => [2,1,2,2,1,2,2]
  | .locrian => [1,2,2,1,2,2,2] | .major => [2,2,1,2,2,2,1] | .harmonicMajor => [2,2,1,2,1,3,1]
  | .naturalMinor => [2,1,2,2,1,2,2] | .harmonicMinor => [2,1,2,2,1,3,1] | .melodicMinor => [2,1,2,2,2,2,1]
  | .bachian => [2,1,2,2,2,2,1] | .minorNeapolitan => [1,2,2,2,1,3,1]
  | .wholeTone => [2,2,2,2,2,2] | .octatonic => [2,1,2,1,2,1,2,1]
  | .chromatic => [1,1,1,1,1,1,1,1,1,1,1,1]
  | .diatonic sem =>
    let ds := (List.range 6).map fun (i : Nat) => if sem.contains ((i : Int) + 1) then (1 : Int) else 2
    ds ++ [(0 - ds.sum) % 12]
/-- descending patterns (read upward) of the two classes that do not descend as they ascend -/
def descPattern : Kind → List Int
  | .melodicMinor => [2,1,2,2,1,2,2]      -- natural minor
  | .minorNeapolitan => [1,2,2,2,1,2,2]   -- natural minor with the lowered second
  | k => pattern k

/-- what the statement says about a full (multi-octave) note list -/
def ListOK (pat : List Int) (tonic : Str) (n : Nat) (L : List Str) : Prop :=
  L.head? = some tonic ∧ L.getLast? = some tonic ∧ stepsP (L.map pc) = (List.replicate n pat).flatten ∧
  L.length = n * pat.length + 1

/-- what it says about the one-octave list that gets repeated -/
def BaseOK (pat : List Int) (tonic : Str) (b : List Str) : Prop :=
  b.head? = some tonic ∧ stepsP (b.map pc ++ [pc tonic]) = pat ∧ b.length = pat.length

/-! ### From one octave to `n` octaves (unbounded in `n`) -/
theorem octs_spec (pat : List Int) (tonic : Str) (b : List Str) (h : BaseOK pat tonic b) (n : Int) :
    ∃ L, octs b n = .ok L ∧ ListOK pat tonic n.toNat L := by
  obtain ⟨hh, hs, hl⟩ := h
  cases b with
  | nil => simp at hh
  | cons b0 rest =>
    simp at hh; subst hh
    refine ⟨_, rfl, by cases n.toNat <;> first | rfl | simp [List.replicate_succ, List.flatten_cons], by simp, ?_, ?_⟩
    · have := steps_repeat (pc b0) (rest.map pc) n.toNat
      simp only [List.map_append, List.map_flatten, List.map_replicate, List.map_cons, List.map_nil]
      rw [this]; simp only [List.map_cons] at hs; rw [← hs]
    · simp [List.length_flatten, List.map_replicate, List.sum_replicate_nat, ← hl]

theorem ascending_of_base (sc : Scale) (pat : List Int) (b : List Str)
    (hi : initCheck sc = .ok ()) (hb : baseAsc sc.kind sc.tonic = .ok b) (hok : BaseOK pat sc.tonic b) :
    ∃ L, ascending sc = .ok L ∧ ListOK pat sc.tonic sc.octaves.toNat L := by
  obtain ⟨L, h1, h2⟩ := octs_spec pat sc.tonic b hok sc.octaves
  exact ⟨L, by simp [ascending, hi, hb, h1, bind, Except.bind], h2⟩

/-! ### Free-tonic classes -/
theorem valid_not_lower (n : Str) (h : valid n = true) : pyIsLower n = false := by
  cases n with
  | nil => simp [valid] at h
  | cons l t =>
    simp only [valid, Bool.and_eq_true] at h
    have : l.isUpper = true := by
      rcases letter_cases h.1 with e | e | e | e | e | e | e <;> subst e <;> decide
    simp [pyIsLower, this]

theorem second_good (sm : Int) (hs : 0 ≤ sm ∧ sm < 12) {n : Str} {l : Char} {p : Int} (h : Good n l p) :
    ∃ r, ctor 1 sm n = .ok r ∧ Good r (letterUp l 1) ((p + sm) % 12) := ctor_good 1 (by decide) sm hs h

/-- one octave of `Diatonic(tonic, semitones)` for any valid tonic and any semitone positions -/
theorem diatonic_base (l : Char) (t : Str) (hv : valid (l :: t) = true) (sem : List Int) :
    ∃ b, diatonicNotes (l :: t) sem = .ok b ∧ BaseOK (pattern (.diatonic sem)) (l :: t) b ∧
      b.map (fun x => x.headD ' ') = lettersUp l 6 ∧ ∀ x ∈ b, valid x = true := by
  have hg := good_of_valid l t hv
  have hp := pc_range (l :: t)
  obtain ⟨ext, h1, h2, h3, h4⟩ := grow_spec
    (fun i last => if sem.contains ((i : Int) + 1) then minorSecond last else majorSecond last)
    (fun i => if sem.contains ((i : Int) + 1) then (1 : Int) else 2) (List.range 6)
    (by
      intro i _ n l' p h
      by_cases hc : sem.contains ((i : Int) + 1) = true
      · simp only [hc, if_true]; exact second_good 1 (by decide) h
      · simp only [hc]; exact second_good 2 (by decide) h)
    [] (l :: t) l (pc (l :: t)) hg
  simp only [List.nil_append] at h1
  refine ⟨_, h1, ⟨rfl, ?_, ?_⟩, h3, ?_⟩
  · rw [h2, stepsP_pcsFrom_closed _ hp]
    simp only [pattern, List.map_map]
    congr 1
    · apply List.map_congr_left; intro i _; simp only [Function.comp]; split <;> rfl
    · congr 1; omega
  · have := congrArg List.length h2
    simp only [List.length_map] at this
    rw [this, pcsFrom_length]; simp [pattern]
  · intro x hx
    simp at hx
    rcases hx with e | e
    · rw [e]; exact hv
    · exact h4 x e

/-- the seven modes are `Diatonic` with fixed semitone positions; their patterns written out -/
theorem mode_patterns :
    pattern (.diatonic [3, 7]) = pattern .ionian ∧ pattern (.diatonic [2, 6]) = pattern .dorian ∧
    pattern (.diatonic [1, 5]) = pattern .phrygian ∧ pattern (.diatonic [4, 7]) = pattern .lydian ∧
    pattern (.diatonic [3, 6]) = pattern .mixolydian ∧ pattern (.diatonic [2, 5]) = pattern .aeolian ∧
    pattern (.diatonic [1, 4]) = pattern .locrian := by decide

def IsFree : Kind → Prop
  | .diatonic _ | .ionian | .dorian | .phrygian | .lydian | .mixolydian | .aeolian | .locrian | .wholeTone => True
  | _ => False

theorem wholeTone_base (l : Char) (t : Str) (hv : valid (l :: t) = true) :
    ∃ b, wholeToneNotes (l :: t) = .ok b ∧ BaseOK (pattern .wholeTone) (l :: t) b := by
  have hg := good_of_valid l t hv
  have hp := pc_range (l :: t)
  obtain ⟨ext, h1, h2, _, _⟩ := grow_spec (fun _ last => majorSecond last) (fun _ => (2 : Int)) (List.range 5)
    (by intro i _ n l' p h; exact second_good 2 (by decide) h) [] (l :: t) l (pc (l :: t)) hg
  simp only [List.nil_append] at h1
  refine ⟨_, h1, rfl, ?_, ?_⟩
  · rw [h2, stepsP_pcsFrom_closed _ hp]
    simp only [pattern]
    have : (List.map (fun _ => (2 : Int)) (List.range 5)) = [2, 2, 2, 2, 2] := by decide
    rw [this]; simp; omega
  · have := congrArg List.length h2
    simp only [List.length_map] at this
    rw [this, pcsFrom_length]; simp [pattern]

theorem octatonic_base (l : Char) (t : Str) (hv : valid (l :: t) = true) :
    ∃ b, octatonicNotes (l :: t) = .ok b ∧ BaseOK (pattern .octatonic) (l :: t) b := by
  have hg := good_of_valid l t hv
  have hp := pc_range (l :: t)
  obtain ⟨a1, ha1, g1⟩ := ctor_good 1 (by decide) 2 (by decide) hg
  obtain ⟨b1, hb1, k1⟩ := ctor_good 2 (by decide) 3 (by decide) hg
  obtain ⟨a2, ha2, g2⟩ := ctor_good 1 (by decide) 2 (by decide) k1
  obtain ⟨b2, hb2, k2⟩ := ctor_good 2 (by decide) 3 (by decide) k1
  obtain ⟨a3, ha3, g3⟩ := ctor_good 1 (by decide) 2 (by decide) k2
  obtain ⟨b3, hb3, _⟩ := ctor_good 2 (by decide) 3 (by decide) k2
  obtain ⟨sv, hsv, gsv⟩ := ctor_good 6 (by decide) 11 (by decide) hg
  obtain ⟨sx, hsx, gsx⟩ := ctor_good 5 (by decide) 9 (by decide) hg
  refine ⟨[l :: t, a1, b1, a2, b2, a3, sx, sv], ?_, rfl, ?_, rfl⟩
  · simp [octatonicNotes, majorSecond, minorThird, majorSeventh, majorSixth, ha1, hb1, ha2, hb2, ha3, hb3, hsv, hsx,
      bind, Except.bind, pure, Except.pure]
  · simp only [List.map_cons, List.map_nil, g1.2.2, k1.2.2, g2.2.2, k2.2.2, g3.2.2, gsx.2.2, gsv.2.2, pattern,
      List.cons_append, List.nil_append, stepsP_cons2, stepsP_single]
    simp only [List.cons.injEq, and_true]
    refine ⟨?_, ?_, ?_, ?_, ?_, ?_, ?_, ?_⟩ <;> omega

/-- ascending form of every free-tonic class: any valid tonic (any accidentals), any octave count -/
theorem free_ascending (k : Kind) (hk : IsFree k ∨ k = .octatonic) (l : Char) (t : Str) (hv : valid (l :: t) = true)
    (oct : Int) :
    ∃ L, ascending ⟨k, l :: t, oct⟩ = .ok L ∧ ListOK (pattern k) (l :: t) oct.toNat L := by
  have hi : ∀ k', k' ≠ Kind.chromatic → initCheck ⟨k', l :: t, oct⟩ = .ok () := by
    intro k' hk'
    cases k' <;> simp_all [initCheck, valid_not_lower _ hv]
  have dia : ∀ sem, ∃ b, baseAsc (.diatonic sem) (l :: t) = .ok b ∧ BaseOK (pattern (.diatonic sem)) (l :: t) b := by
    intro sem
    obtain ⟨b, h1, h2, _⟩ := diatonic_base l t hv sem
    exact ⟨b, h1, h2⟩
  have mp := mode_patterns
  have fin : ∀ b, baseAsc k (l :: t) = .ok b → BaseOK (pattern k) (l :: t) b → k ≠ .chromatic →
      ∃ L, ascending ⟨k, l :: t, oct⟩ = .ok L ∧ ListOK (pattern k) (l :: t) oct.toNat L := by
    intro b hb hok hne
    exact ascending_of_base ⟨k, l :: t, oct⟩ (pattern k) b (hi k hne) hb hok
  cases k with
  | diatonic sem => obtain ⟨b, h1, h2⟩ := dia sem; exact fin b h1 h2 (by simp)
  | ionian => obtain ⟨b, h1, h2⟩ := dia [3, 7]; exact fin b h1 (mp.1 ▸ h2) (by simp)
  | dorian => obtain ⟨b, h1, h2⟩ := dia [2, 6]; exact fin b h1 (mp.2.1 ▸ h2) (by simp)
  | phrygian => obtain ⟨b, h1, h2⟩ := dia [1, 5]; exact fin b h1 (mp.2.2.1 ▸ h2) (by simp)
  | lydian => obtain ⟨b, h1, h2⟩ := dia [4, 7]; exact fin b h1 (mp.2.2.2.1 ▸ h2) (by simp)
  | mixolydian => obtain ⟨b, h1, h2⟩ := dia [3, 6]; exact fin b h1 (mp.2.2.2.2.1 ▸ h2) (by simp)
  | aeolian => obtain ⟨b, h1, h2⟩ := dia [2, 5]; exact fin b h1 (mp.2.2.2.2.2.1 ▸ h2) (by simp)
  | locrian => obtain ⟨b, h1, h2⟩ := dia [1, 4]; exact fin b h1 (mp.2.2.2.2.2.2 ▸ h2) (by simp)
  | wholeTone => obtain ⟨b, h1, h2⟩ := wholeTone_base l t hv; exact fin b h1 h2 (by simp)
  | octatonic => obtain ⟨b, h1, h2⟩ := octatonic_base l t hv; exact fin b h1 h2 (by simp)
  | _ => simp [IsFree] at hk

/-- heptatonic free-tonic scales use consecutive letters -/
theorem diatonic_letters (l : Char) (t : Str) (hv : valid (l :: t) = true) (sem : List Int) :
    ∃ b, diatonicNotes (l :: t) sem = .ok b ∧ b.map (fun x => x.headD ' ') = lettersUp l 6 := by
  obtain ⟨b, h1, _, h3, _⟩ := diatonic_base l t hv sem
  exact ⟨b, h1, h3⟩

/-! ### Key-derived classes: the whole tonic table, evaluated in the kernel -/
def baseCheck (k : Kind) (tonic : Str) (expectTonic : Str) (hept : Bool) : Bool :=
  match initCheck ⟨k, tonic, 1⟩, baseAsc k tonic with
  | .ok _, .ok b =>
    b.head? == some expectTonic && stepsP (b.map pc ++ [pc expectTonic]) == pattern k && b.length == (pattern k).length
    && b.all valid
    && (!hept || b.map (fun x => x.headD ' ') == lettersUp (expectTonic.headD ' ') 6)
  | _, _ => false

def upperFirst : Str → Str
  | [] => []
  | c :: t => c.toUpper :: t
def minorTonics : List Str := minorKeys.map upperFirst

theorem major_family_bases : ∀ k ∈ majorFamily, ∀ t ∈ majorKeys, baseCheck k t t true = true := by decide +kernel
theorem minor_family_bases : ∀ k ∈ minorFamily, ∀ t ∈ minorTonics, baseCheck k t t true = true := by decide +kernel
theorem chromatic_bases : ∀ key ∈ allKeys, baseCheck .chromatic key (upperFirst key) false = true := by decide +kernel

theorem baseCheck_sound (k : Kind) (tonic : Str) (oct : Int) (hept : Bool) (h : baseCheck k tonic tonic hept = true) :
    ∃ L, ascending ⟨k, tonic, oct⟩ = .ok L ∧ ListOK (pattern k) tonic oct.toNat L := by
  unfold baseCheck at h
  split at h
  · rename_i u b hi hb
    simp only [Bool.and_eq_true, beq_iff_eq] at h
    have hi' : initCheck ⟨k, tonic, oct⟩ = .ok () := by
      have : initCheck ⟨k, tonic, oct⟩ = initCheck ⟨k, tonic, 1⟩ := by
        simp only [initCheck]
      rw [this, hi]
    exact ascending_of_base ⟨k, tonic, oct⟩ (pattern k) b hi' hb ⟨h.1.1.1.1, h.1.1.1.2, h.1.1.2⟩
  · cases h

/-- major and minor families: every valid tonic, every octave count -/
theorem family_ascending :
    (∀ k ∈ majorFamily, ∀ t ∈ majorKeys, ∀ oct : Int,
      ∃ L, ascending ⟨k, t, oct⟩ = .ok L ∧ ListOK (pattern k) t oct.toNat L) ∧
    (∀ k ∈ minorFamily, ∀ t ∈ minorTonics, ∀ oct : Int,
      ∃ L, ascending ⟨k, t, oct⟩ = .ok L ∧ ListOK (pattern k) t oct.toNat L) :=
  ⟨fun k hk t ht oct => baseCheck_sound k t oct true (major_family_bases k hk t ht),
   fun k hk t ht oct => baseCheck_sound k t oct true (minor_family_bases k hk t ht)⟩

/-! ### Descending -/
/-- every class except melodic minor, minor Neapolitan and Chromatic descends as the exact reverse -/
theorem descending_is_reverse (sc : Scale) (h1 : sc.kind ≠ .melodicMinor) (h2 : sc.kind ≠ .minorNeapolitan)
    (h3 : sc.kind ≠ .chromatic) (L : List Str) (hL : ascending sc = .ok L) :
    descending sc = .ok L.reverse := by
  have hi : initCheck sc = .ok () := by
    simp only [ascending, bind, Except.bind] at hL
    split at hL
    · cases hL
    · rename_i u hu; cases u; exact hu
  obtain ⟨k, t, o⟩ := sc
  cases k <;> simp_all [descending, bind, Except.bind, pure, Except.pure]

def descCheck (k : Kind) (tonic : Str) : Bool :=
  match descending ⟨k, tonic, 1⟩ with
  | .ok d => d.head? == some tonic && d.getLast? == some tonic
      && stepsP (d.reverse.map pc) == descPattern k && d.all valid
  | _ => false
/-- melodic minor descends as natural minor, minor Neapolitan as natural minor with the lowered second
    (one octave, all 15 minor tonics) -/
theorem special_descending : ∀ k ∈ [Kind.melodicMinor, Kind.minorNeapolitan], ∀ t ∈ minorTonics, descCheck k t = true := by
  decide +kernel
theorem chromatic_descending : ∀ key ∈ allKeys,
    (match descending ⟨.chromatic, key, 1⟩ with
     | .ok d => d.head? == some (upperFirst key) && d.getLast? == some (upperFirst key)
         && stepsP (d.reverse.map pc) == pattern .chromatic
     | _ => false) = true := by decide +kernel

/-! ### Degree lookup, length, equality follow the note lists -/
theorem degree_spec (sc : Scale) (n : Int) (hn : 1 ≤ n) :
    degree sc n ['a'] = (do let a ← ascending sc
                            match a.dropLast[(n - 1).toNat]? with | some x => pure x | none => throw .index) ∧
    degree sc n ['d'] = (do let d ← descending sc
                            match d.reverse.dropLast[(n - 1).toNat]? with | some x => pure x | none => throw .index) ∧
    (∀ m : Int, m < 1 → ∀ dir, degree sc m dir = .error .range) := by
  have : ¬ n < 1 := by omega
  refine ⟨?_, ?_, ?_⟩
  · unfold degree; rw [if_neg this, if_pos rfl]; rfl
  · unfold degree; rw [if_neg this, if_neg (by decide), if_pos rfl]; rfl
  · intro m hm dir; simp [degree, hm]

theorem len_spec (sc : Scale) (L : List Str) (h : ascending sc = .ok L) : len sc = .ok L.length := by
  simp [len, h, bind, Except.bind, pure, Except.pure]

theorem eq_spec (a b : Scale) (x y xd yd : List Str) (h1 : ascending a = .ok x) (h2 : ascending b = .ok y)
    (h3 : descending a = .ok xd) (h4 : descending b = .ok yd) :
    Scales.eq a b = .ok (decide (x = y ∧ xd = yd)) := by
  by_cases h : x = y
  · by_cases h' : xd = yd <;> simp [Scales.eq, h1, h2, h3, h4, bind, Except.bind, pure, Except.pure, h, h']
  · simp [Scales.eq, h1, h2, bind, Except.bind, pure, Except.pure, h]

/-! ### Recognition (arbitrary note lists) -/
def ascOf (e : Str × Scale) : List Str := match ascending e.2 with | .ok a => a | _ => []
def descOf (e : Str × Scale) : List Str := match descending e.2 with | .ok a => a | _ => []
def hits (notes : List Str) (e : Str × Scale) : Bool := subset notes (ascOf e) || subset notes (descOf e)

theorem entries_ok : ∀ e ∈ entries, (ascending e.2).toBool = true ∧ (descending e.2).toBool = true := by
  decide +kernel

/-- the scanned scales are exactly the 2 major-family and 5 minor-family classes on all 15 key pairs -/
theorem entries_are_the_families :
    entries.length = 15 * 7 ∧
    entries.map (·.2) = keys.flatMap (fun c =>
      (majorFamily.map fun k => (⟨k, c.1, 1⟩ : Scale)) ++ (minorFamily.map fun k => ⟨k, upperFirst c.2, 1⟩)) ∧
    ∀ e ∈ entries, e.1 = name e.2.kind e.2.tonic := by decide +kernel

def stepFn (notes : List Str) (res : List Str) (e : Str × Scale) : Except Err (List Str) := do
  let a ← ascending e.2
  let d ← descending e.2
  pure (if subset notes a || subset notes d then res ++ [e.1] else res)

theorem determine_eq_fold (notes : List Str) : Scales.determine notes = entries.foldlM (stepFn notes) [] := rfl

theorem stepFn_ok (notes : List Str) (res : List Str) (e : Str × Scale)
    (he : (ascending e.2).toBool = true ∧ (descending e.2).toBool = true) :
    stepFn notes res e = .ok (if hits notes e then res ++ [e.1] else res) := by
  cases ha : ascending e.2 with
  | error x => simp [ha, Except.toBool] at he
  | ok a =>
    cases hd : descending e.2 with
    | error x => simp [hd, Except.toBool] at he
    | ok d => simp [stepFn, hits, ascOf, descOf, ha, hd, bind, Except.bind, pure, Except.pure]

theorem fold_filter (notes : List Str) (es : List (Str × Scale))
    (hes : ∀ e ∈ es, (ascending e.2).toBool = true ∧ (descending e.2).toBool = true) (acc : List Str) :
    es.foldlM (stepFn notes) acc = .ok (acc ++ (es.filter (hits notes)).map (·.1)) := by
  induction es generalizing acc with
  | nil => simp [pure, Except.pure]
  | cons e es ih =>
    have hes' : ∀ e' ∈ es, (ascending e'.2).toBool = true ∧ (descending e'.2).toBool = true :=
      fun e' h => hes e' (by simp [h])
    rw [List.foldlM_cons, stepFn_ok notes acc e (hes e (by simp))]
    simp only [bind, Except.bind]
    rw [ih hes']
    simp only [List.filter_cons]
    split <;> simp

/-- `determine` returns exactly the family scales whose ascending or descending note set contains every given note -/
theorem determine_spec (notes : List Str) :
    Scales.determine notes = .ok ((entries.filter (hits notes)).map (·.1)) := by
  rw [determine_eq_fold, fold_filter notes entries entries_ok []]; simp

theorem determine_exact (notes : List Str) (nm : Str) :
    (∃ r, Scales.determine notes = .ok r ∧ (nm ∈ r ↔
      ∃ e ∈ entries, e.1 = nm ∧ ((∀ x ∈ notes, x ∈ ascOf e) ∨ (∀ x ∈ notes, x ∈ descOf e)))) := by
  refine ⟨_, determine_spec notes, ?_⟩
  simp only [List.mem_map, List.mem_filter, hits, subset, Bool.or_eq_true, List.all_eq_true,
    List.contains_iff_mem]
  constructor
  · rintro ⟨e, ⟨he, hm⟩, rfl⟩; exact ⟨e, he, rfl, hm⟩
  · rintro ⟨e, he, rfl, hm⟩; exact ⟨e, ⟨he, hm⟩, rfl⟩

/-! ### Non-vacuity -/
example : ascending ⟨.dorian, lit "D", 1⟩ = .ok (["D","E","F","G","A","B","C","D"].map String.toList) := by decide +kernel
example : ascending ⟨.octatonic, lit "C#b#", 2⟩ =
    .ok (["C#b#","D#","E","F#","G","A","A#","B#","C#b#","D#","E","F#","G","A","A#","B#","C#b#"].map String.toList) := by
  decide +kernel
example : descending ⟨.melodicMinor, lit "A", 1⟩ = .ok (["A","G","F","E","D","C","B","A"].map String.toList) := by
  decide +kernel
example : Scales.determine [lit "A", lit "Bb", lit "E", lit "F#", lit "G"] =
    .ok (["G melodic minor", "G Bachian", "D harmonic major"].map String.toList) := by decide +kernel

end Mingus.Props.C05
