import Mingus.Props.C20Decode
import Mathlib.Data.List.Forall2
/-
  C20 — the tablature of a whole track decodes (`from_Track`).

  `from_Track` renders every bar with `from_Bar` and either starts a new system (two empty lines, then the bar's lines) or glues
  the bar, cut after its label columns, to the lines of the last system.  `fromTrack_decode`: the result is a sequence of
  systems; in each system string `i` (counted from the lowest) is the label columns followed, bar after bar IN THE TRACK'S
  ORDER, by a digit-free lead-in, the bar's cells (one per entry, reading back as a fingering of that entry - `Decodes`) and
  the digit-free bar closing.  Every bar of the track appears in exactly one system, none is lost or repeated.
  For any tuning whose labels fit the label column and contain no digit (all registered single-string tunings: kernel check).
-/
namespace Mingus.Props.C20
open Mingus Mingus.Tun Mingus.Tab Mingus.Containers

abbrev nodigit (x : Line) : Prop := x.filter Char.isDigit = []

theorem nodigit_drop (x : Line) (k : Nat) (h : nodigit x) : nodigit (x.drop k) := by
  unfold nodigit at *
  rw [List.filter_eq_nil_iff] at *
  intro c hc
  exact h c (List.mem_of_mem_drop hc)

/-! ### where the bar starts -/

theorem go_hit (rest : Line) (i : Nat) : find2.go ('|' :: '|' :: rest) i = i := by
  simp [find2.go]

theorem go_skip (c : Char) (l : Line) (i : Nat) (h : ∀ r, c :: l ≠ '|' :: '|' :: r) : find2.go (c :: l) i = find2.go l (i + 1) := by
  cases l with
  | nil => simp [find2.go]
  | cons d ds =>
    by_cases hcd : c = '|' ∧ d = '|'
    · obtain ⟨rfl, rfl⟩ := hcd; exact absurd rfl (h ds)
    · rw [find2.go]
      intro tail h1 h2
      simp only [List.cons.injEq] at h2
      exact hcd ⟨h1, h2.1⟩

theorem find2_go_le (pre rest : Line) : ∀ (i : Nat), (i : Int) ≤ find2.go (pre ++ '|' :: '|' :: rest) i ∧
    find2.go (pre ++ '|' :: '|' :: rest) i ≤ i + pre.length := by
  induction pre with
  | nil => intro i; rw [List.nil_append, go_hit]; simp
  | cons c cs ih =>
    intro i
    by_cases hh : ∃ r, c :: (cs ++ '|' :: '|' :: rest) = '|' :: '|' :: r
    · obtain ⟨r, hr⟩ := hh
      rw [List.cons_append, hr, go_hit]
      simp only [List.length_cons]; omega
    · have hh' : ∀ r, c :: (cs ++ '|' :: '|' :: rest) ≠ '|' :: '|' :: r := fun r hr => hh ⟨r, hr⟩
      rw [List.cons_append, go_skip c _ i hh']
      have := ih (i + 1)
      simp only [List.length_cons]
      omega

/-- the first `||` of a line that has one lies at or before the one we know of -/
theorem find2_le (pre rest : Line) : 0 ≤ find2 (pre ++ '|' :: '|' :: rest) ∧ find2 (pre ++ '|' :: '|' :: rest) ≤ pre.length := by
  have := find2_go_le pre rest 0
  unfold find2
  simp only [Nat.cast_zero, zero_add] at this
  exact ⟨this.1, by simpa using this.2⟩

/-! ### the label columns -/

/-- every line `begin_track` opens contains `||`; it has no digit when the labels have none -/
theorem beginTrack_shape (t : Tuning) (padding : Int) (names : List Str) (start : List Line)
    (hl : labels t = .ok names) (hnd : ∀ x ∈ names, nodigit x) (h : beginTrack t padding = .ok start) :
    start.length = t.length ∧ ∀ ln ∈ start, (∃ pre rest, ln = pre ++ '|' :: '|' :: rest) ∧ nodigit ln := by
  unfold beginTrack at h
  cases hb : baseSize names with
  | error e => simp [hl, hb, bind, Except.bind] at h
  | ok bs =>
    simp only [hl, hb, bind, Except.bind, pure, Except.pure, Except.ok.injEq] at h
    subst h
    refine ⟨?_, ?_⟩
    · have := mapM_length _ t names hl
      simp [this]
    · intro ln hln
      obtain ⟨x, hx, rfl⟩ := List.mem_map.1 hln
      refine ⟨⟨(' ' :: x) ++ rep ' ' (bs - ((' ' :: x).length : Int)), rep '-' padding, by simp [lit, List.append_assoc]⟩, ?_⟩
      have h1 : (rep ' ' (bs - ((' ' :: x).length : Int))).filter Char.isDigit = [] := by
        simp only [rep, List.filter_eq_nil_iff, List.mem_replicate]
        rintro c ⟨_, rfl⟩; decide
      have h2 : (lit "||").filter Char.isDigit = [] := by decide
      have h3 : ¬ (Char.isDigit ' ' = true) := by decide
      show List.filter Char.isDigit _ = []
      simp only [List.filter_append, List.filter_cons, h3, hnd x hx, h1, h2, filter_digit_rep_dash, List.append_nil]
      simp

/-! ### gluing a bar to the last system -/

theorem glue_last (P S r : List Line) (B : Int) (h : S.length = r.length) :
    glue (P ++ S) r B = P ++ (List.zip S r).map fun (a, b) => a ++ b.drop B.toNat := by
  unfold glue
  have e : (P ++ S).length - r.length = P.length := by simp [h]
  simp only [e, List.take_left', List.drop_left']

/-- two renderings on the same label columns, the second cut after `B` columns and appended to the first -/
theorem zip_appendSegs (start : List Line) (G G' : Nat → Line) (B : Nat) (hB : ∀ ln ∈ start, B ≤ ln.length) :
    (List.zip (appendSegs start G) (appendSegs start G')).map (fun (a, b) => a ++ b.drop B) =
      appendSegs start (fun i => G i ++ ((start.getD i []).drop B ++ G' i)) := by
  apply List.ext_getElem
  · simp [appendSegs]
  · intro k h1 h2
    have hk : k < start.length := by simpa [appendSegs] using h2
    have hle := hB start[k] (List.getElem_mem hk)
    simp only [appendSegs, List.getElem_map, List.getElem_zip, List.getElem_mapIdx, List.getD_eq_getElem?_getD,
      List.getElem?_eq_getElem hk, Option.getD_some]
    rw [List.drop_append_of_le_length hle]
    simp [List.append_assoc]

theorem map_zip_rev {α β γ} (f : α → β → γ) (a : List α) (b : List β) (h : a.length = b.length) :
    ((List.zip a b).map fun p => f p.1 p.2).reverse = (List.zip a.reverse b.reverse).map fun p => f p.1 p.2 := by
  have key : ∀ (a : List α) (b : List β), (List.zip a b).map (fun p => f p.1 p.2) = List.zipWith f a b := by
    intro a b; simp [List.zip, List.map_zipWith]
  rw [key, key, List.reverse_zipWith h]

/-! ### systems -/

/-- one bar inside a system: what string `i` shows before the cells, the cells, the closing -/
structure BarSeg where
  lead : Nat → Line
  gs : List (Nat → Line)
  close : Line

def BarSeg.text (s : BarSeg) (i : Nat) : Line := s.lead i ++ (cellsOn s.gs i ++ s.close)

def SegOK (t : Tuning) (b : TBar) (s : BarSeg) : Prop :=
  List.Forall₂ (Decodes t) b.entries s.gs ∧ nodigit s.close ∧ ∀ i, nodigit (s.lead i)

/-- the string lines `L` (highest string first) of a system showing `bars` -/
def SysOK (t : Tuning) (start : List Line) (bars : List TBar) (L : List Line) : Prop :=
  ∃ segs, List.Forall₂ (SegOK t) bars segs ∧ L.reverse = appendSegs start (fun i => (segs.map (·.text i)).flatten)

abbrev Sys := Line × List Line × List TBar     -- quarter-mark line, string lines, the bars shown

def render (systems : List Sys) : List Line := systems.flatMap fun s => [[], []] ++ s.1 :: s.2.1

def Inv (t : Tuning) (start : List Line) (R : List Line) (done : List TBar) : Prop :=
  ∃ systems : List Sys, R = render systems ∧ (∀ s ∈ systems, SysOK t start s.2.2 s.2.1) ∧ systems.flatMap (·.2.2) = done

theorem render_snoc (systems : List Sys) (s : Sys) : render (systems ++ [s]) = render systems ++ ([[], []] ++ s.1 :: s.2.1) := by
  simp [render]

theorem render_ne_nil (systems : List Sys) (h : render systems ≠ []) : systems ≠ [] := by
  intro e; subst e; exact h rfl

/-! ### one bar of the track -/

/-- what `from_Bar` hands to `from_Track`, in the shape the system bookkeeping needs -/
theorem fromBar_system (t : Tuning) (b : TBar) (width : Int) (ls : List Line) (h : fromBar t b width = .ok ls) :
    ∃ (top : Line) (L start : List Line) (gs : List (Nat → Line)) (close : Line), ls = top :: L ∧
      (∃ qs pad, qSize t width = .ok qs ∧ pad = max 2 (qs / 2) ∧ beginTrack t pad = .ok start) ∧
      L.reverse = appendSegs start (fun i => cellsOn gs i ++ close) ∧ List.Forall₂ (Decodes t) b.entries gs ∧ nodigit close := by
  obtain ⟨start, gs, close, h1, h2, h3⟩ := fromBar_decode t b width ls h
  -- the start lines are those of begin_track at this width: re-open the definition to name them
  unfold fromBar at h
  simp only [bind, Except.bind] at h
  split at h
  · cases h
  · rename_i qsize hq
    split at h
    · cases h
    · rename_i start' hstart
      split at h
      · cases h
      · rename_i result hres
        split at h
        · cases h
        · simp only [pure, Except.pure, Except.ok.injEq] at h
          subst h
          obtain ⟨gs', hg', hd'⟩ := foldl_barStep_decode t qsize b.entries start' result hres
          subst hg'
          refine ⟨_, _, start', gs', rep '-' (width - (((appendSegs start' (cellsOn gs')).headD []).length + 1 : Int)) ++ lit "|", rfl,
            ⟨qsize, _, hq, rfl, hstart⟩, ?_, hd', ?_⟩
          · simp only [List.reverse_reverse]
            apply List.ext_getElem
            · simp [appendSegs]
            · intro k h1 h2
              simp [appendSegs, List.append_assoc]
          · show List.filter Char.isDigit _ = []
            rw [List.filter_append, filter_digit_rep_dash]
            decide

/-- the step shared by `from_Track` and `from_Composition`: a rendered bar (any quarter-mark line `top`, string lines `L` as
    `from_Bar` makes them) is either glued to the last system or opens a new one; the system structure is kept -/
theorem sys_step_sys (t : Tuning) (names : List Str) (hl : labels t = .ok names)
    (hfit : ∀ x ∈ names, (x.length : Int) + 1 ≤ (maxStr names).length + 3) (hnd : ∀ x ∈ names, nodigit x)
    (start : List Line) (pad : Int) (hs : beginTrack t pad = .ok start)
    (R : List Line) (done : List TBar) (b : TBar) (systems : List Sys) (hR : R = render systems)
    (hok : ∀ s ∈ systems, SysOK t start s.2.2 s.2.1) (hdone : systems.flatMap (·.2.2) = done)
    (top : Line) (L : List Line) (gs : List (Nat → Line)) (close : Line)
    (hL : L.reverse = appendSegs start (fun i => cellsOn gs i ++ close)) (hdec : List.Forall₂ (Decodes t) b.entries gs)
    (hclose : nodigit close) (c : Prop) [Decidable c] (R' : List Line)
    (hR' : (if c ∧ R ≠ [] then glue R (top :: L) (find2 ((top :: L).getD 1 []) + 2) else R ++ [[], []] ++ top :: L) = R') :
    ∃ systems' : List Sys, R' = render systems' ∧ (∀ s ∈ systems', SysOK t start s.2.2 s.2.1) ∧
      systems'.flatMap (·.2.2) = done ++ [b] ∧
      systems'.length = (if c ∧ R ≠ [] then systems.length else systems.length + 1) := by
  have hseg : SegOK t b ⟨fun _ => [], gs, close⟩ := ⟨hdec, hclose, fun _ => rfl⟩
  have hnew : SysOK t start [b] L := by
    refine ⟨[⟨fun _ => [], gs, close⟩], List.Forall₂.cons hseg List.Forall₂.nil, ?_⟩
    rw [hL]; congr 1; funext i; simp [BarSeg.text]
  by_cases hc : c ∧ R ≠ []
  · -- glued to the last system
    simp only [hc, and_self, if_true] at hR'
    have hsne : systems ≠ [] := render_ne_nil systems (by rw [← hR]; exact hc.2)
    obtain ⟨init, last, rfl⟩ : ∃ init last, systems = init ++ [last] :=
      ⟨systems.dropLast, systems.getLast hsne, (List.dropLast_concat_getLast hsne).symm⟩
    obtain ⟨ltop, lL, lbars⟩ := last
    obtain ⟨segs, hsegs, hlL⟩ := hok (ltop, lL, lbars) (by simp)
    have hlen1 : lL.length = start.length := by
      have := congrArg List.length hlL; simpa [appendSegs] using this
    have hlen2 : L.length = start.length := by
      have := congrArg List.length hL; simpa [appendSegs] using this
    -- where the cut falls: inside the label columns
    obtain ⟨hstlen, hshape⟩ := beginTrack_shape t _ names start hl hnd hs
    have hequal := beginTrack_lengths t _ names start hl hfit hs
    set B : Nat := (find2 ((top :: L).getD 1 []) + 2).toNat with hBdef
    have hB : ∀ ln ∈ start, B ≤ ln.length := by
      intro ln hln
      by_cases hn : start = []
      · rw [hn] at hln; cases hln
      · -- the first string line of the bar is the LAST start line followed by cells
        have hlast : ∃ lastS X, (top :: L).getD 1 [] = lastS ++ X ∧ lastS ∈ start := by
          have hLne : L ≠ [] := by intro e; rw [e] at hlen2; simp at hlen2; exact hn (List.length_eq_zero_iff.1 hlen2.symm)
          obtain ⟨x0, xs, hx0⟩ := List.exists_cons_of_ne_nil hLne
          have hrev : L.reverse.getLast? = some x0 := by rw [hx0]; simp
          rw [hL] at hrev
          have hk : start.length - 1 < start.length := by
            have : 0 < start.length := List.length_pos_iff.2 hn
            omega
          have hget : (appendSegs start (fun i => cellsOn gs i ++ close)).getLast? =
              some (start[start.length - 1] ++ (cellsOn gs (start.length - 1) ++ close)) := by
            rw [List.getLast?_eq_getElem?]
            simp [appendSegs, List.getElem?_mapIdx, List.getElem?_eq_getElem hk]
          rw [hget] at hrev
          refine ⟨start[start.length - 1], cellsOn gs (start.length - 1) ++ close, ?_, List.getElem_mem hk⟩
          simp only [hx0, List.getD_cons_succ, List.getD_cons_zero]
          exact (Option.some.inj hrev).symm
        obtain ⟨lastS, X, hX, hmem⟩ := hlast
        obtain ⟨⟨pre, rest, hpr⟩, _⟩ := hshape lastS hmem
        have hf := find2_le pre (rest ++ X)
        have e : (top :: L).getD 1 [] = pre ++ '|' :: '|' :: (rest ++ X) := by rw [hX, hpr]; simp
        rw [e] at hBdef
        have h1 := hequal ln hln
        have h2 := hequal lastS hmem
        have h3 : lastS.length = pre.length + 2 + rest.length := by rw [hpr]; simp; omega
        omega
    have hglue : R' = render init ++ ([[], []] ++ (ltop ++ top.drop B) ::
        ((List.zip lL L).map fun (a, b) => a ++ b.drop B)) := by
      rw [← hR', hR, render_snoc]
      have e : render init ++ ([[], []] ++ ltop :: lL) = (render init ++ [[], []]) ++ (ltop :: lL) := by simp
      rw [e, glue_last _ _ _ _ (by simp [hlen1, hlen2])]
      simp [hBdef, List.append_assoc]
    refine ⟨init ++ [(ltop ++ top.drop B, (List.zip lL L).map (fun (a, b) => a ++ b.drop B), lbars ++ [b])], ?_, ?_, ?_, by simp [hc]⟩
    · rw [hglue, render_snoc]
    · intro s hs'
      rcases List.mem_append.1 hs' with hs' | hs'
      · exact hok s (by simp [hs'])
      · simp only [List.mem_singleton] at hs'
        subst hs'
        refine ⟨segs ++ [⟨fun i => (start.getD i []).drop B, gs, close⟩], ?_, ?_⟩
        · refine List.rel_append hsegs (List.Forall₂.cons ⟨hdec, hclose, ?_⟩ List.Forall₂.nil)
          show ∀ i, nodigit ((start.getD i []).drop B)
          intro i
          apply nodigit_drop
          by_cases hi : i < start.length
          · have : start.getD i [] = start[i] := by simp [List.getD_eq_getElem?_getD, List.getElem?_eq_getElem hi]
            rw [this]; exact (hshape _ (List.getElem_mem hi)).2
          · have hge : start.length ≤ i := by omega
            have : start.getD i [] = [] := by simp [List.getD_eq_getElem?_getD, List.getElem?_eq_none hge]
            rw [this]; rfl
        · -- reverse of a zip of equally long lists
          have hrevzip : ((List.zip lL L).map fun (a, b) => a ++ b.drop B).reverse =
              (List.zip lL.reverse L.reverse).map fun (a, b) => a ++ b.drop B := by
            exact map_zip_rev (fun a b => a ++ b.drop B) lL L (by rw [hlen1, hlen2])
          simp only []
          rw [hrevzip, hlL, hL, zip_appendSegs start _ _ B hB]
          congr 1
          funext i
          simp [BarSeg.text, List.append_assoc]
    · rw [← hdone]; simp [List.flatMap_append]
  · -- a new system
    simp only [hc, if_false] at hR'
    refine ⟨systems ++ [(top, L, [b])], ?_, ?_, ?_, by simp [hc]⟩
    · rw [← hR', hR, render_snoc]; simp
    · intro s hs'
      rcases List.mem_append.1 hs' with hs' | hs'
      · exact hok s hs'
      · simp only [List.mem_singleton] at hs'; subst hs'; exact hnew
    · rw [← hdone]; simp [List.flatMap_append]


theorem sys_step (t : Tuning) (names : List Str) (hl : labels t = .ok names)
    (hfit : ∀ x ∈ names, (x.length : Int) + 1 ≤ (maxStr names).length + 3) (hnd : ∀ x ∈ names, nodigit x)
    (start : List Line) (pad : Int) (hs : beginTrack t pad = .ok start)
    (R : List Line) (done : List TBar) (b : TBar) (hinv : Inv t start R done)
    (top : Line) (L : List Line) (gs : List (Nat → Line)) (close : Line)
    (hL : L.reverse = appendSegs start (fun i => cellsOn gs i ++ close)) (hdec : List.Forall₂ (Decodes t) b.entries gs)
    (hclose : nodigit close) (c : Prop) [Decidable c] (R' : List Line)
    (hR' : (if c ∧ R ≠ [] then glue R (top :: L) (find2 ((top :: L).getD 1 []) + 2) else R ++ [[], []] ++ top :: L) = R') :
    Inv t start R' (done ++ [b]) := by
  obtain ⟨systems, hR, hok, hdone⟩ := hinv
  obtain ⟨s', h1, h2, h3, _⟩ := sys_step_sys t names hl hfit hnd start pad hs R done b systems hR hok hdone top L gs close hL hdec
    hclose c R' hR'
  exact ⟨s', h1, h2, h3⟩

/-- the step of `from_Track`'s loop keeps the system structure -/
theorem track_step (t : Tuning) (names : List Str) (hl : labels t = .ok names)
    (hfit : ∀ x ∈ names, (x.length : Int) + 1 ≤ (maxStr names).length + 3) (hnd : ∀ x ∈ names, nodigit x)
    (width maxwidth : Int) (start : List Line) (qs : Int) (hq : qSize t width = .ok qs) (hs : beginTrack t (max 2 (qs / 2)) = .ok start)
    (R : List Line) (lastlen : Int) (done : List TBar) (b : TBar) (hinv : Inv t start R done)
    (R' : List Line) (l' : Int)
    (h : (do
      let r ← fromBar t b width
      let barstart := find2 (r.getD 1 []) + 2
      let result := if ((r.headD []).length + lastlen) - barstart < maxwidth ∧ R ≠ [] then glue R r barstart
        else R ++ [[], []] ++ r
      pure (result, ((result.getLast?.getD []).length : Int)) : Except Err (List Line × Int)) = .ok (R', l')) :
    Inv t start R' (done ++ [b]) := by
  simp only [bind, Except.bind] at h
  split at h
  · cases h
  · rename_i ls hls
    simp only [pure, Except.pure, Except.ok.injEq, Prod.mk.injEq] at h
    obtain ⟨hR', _⟩ := h
    obtain ⟨top, L, start2, gs, close, rfl, ⟨qs2, pad2, hq2, hp2, hs2⟩, hL, hdec, hclose⟩ := fromBar_system t b width ls hls
    -- the same label columns as every other bar of this track
    have hqq : qs2 = qs := by rw [hq] at hq2; exact (Except.ok.inj hq2).symm
    subst hqq
    subst hp2
    have hss : start2 = start := by rw [hs] at hs2; exact (Except.ok.inj hs2).symm
    subst hss
    exact sys_step t names hl hfit hnd start2 _ hs R done b hinv top L gs close hL hdec hclose
      (((((top :: L).headD []).length : Int) + lastlen) - (find2 ((top :: L).getD 1 []) + 2) < maxwidth) R' hR'

/-- **from_Track decodes**: the result is a sequence of systems (two empty lines, the quarter-mark line, the string lines);
    every bar of the track is shown in exactly one system, in order; in a system string `i` (from the lowest) reads: label
    columns, then per bar a digit-free lead-in, one cell per entry reading back as a fingering of that entry, and a digit-free
    closing -/
theorem fromTrack_decode (t : Tuning) (names : List Str) (hl : labels t = .ok names)
    (hfit : ∀ x ∈ names, (x.length : Int) + 1 ≤ (maxStr names).length + 3) (hnd : ∀ x ∈ names, nodigit x)
    (bars : List TBar) (maxwidth : Int) (R : List Line) (h : fromTrack t bars maxwidth = .ok R) (hne : bars ≠ []) :
    ∃ (start : List Line) (systems : List Sys), R = render systems ∧ (∀ s ∈ systems, SysOK t start s.2.2 s.2.1) ∧
      systems.flatMap (·.2.2) = bars := by
  -- the label columns of this width (every bar uses them; there is at least one bar, so they exist)
  unfold fromTrack at h
  simp only [bind, Except.bind] at h
  split at h
  · cases h
  · rename_i res hfold
    simp only [pure, Except.pure, Except.ok.injEq] at h
    subst h
    obtain ⟨b0, bs, rfl⟩ := List.exists_cons_of_ne_nil hne
    -- find qsize and start from the first bar's rendering
    have hfirst : ∃ ls, fromBar t b0 (getWidth maxwidth) = .ok ls := by
      rw [List.foldlM_cons] at hfold
      simp only [bind, Except.bind] at hfold
      cases hb : fromBar t b0 (getWidth maxwidth) with
      | error e => simp [hb] at hfold
      | ok ls => exact ⟨ls, rfl⟩
    obtain ⟨ls0, hls0⟩ := hfirst
    obtain ⟨_, _, start, _, _, _, ⟨qs, _, hq, rfl, hs⟩, _, _, _⟩ := fromBar_system t b0 (getWidth maxwidth) ls0 hls0
    have key : ∀ (bars : List TBar) (R : List Line) (ll : Int) (done : List TBar) (res : List Line × Int),
        Inv t start R done →
        bars.foldlM (fun (acc : List Line × Int) b => (do
          let r ← fromBar t b (getWidth maxwidth)
          let barstart := find2 (r.getD 1 []) + 2
          let result := if ((r.headD []).length + acc.2) - barstart < maxwidth ∧ acc.1 ≠ [] then glue acc.1 r barstart
            else acc.1 ++ [[], []] ++ r
          pure (result, ((result.getLast?.getD []).length : Int)) : Except Err (List Line × Int))) (R, ll) = .ok res →
        Inv t start res.1 (done ++ bars) := by
      intro bars
      induction bars with
      | nil =>
        intro R ll done res hinv hf
        simp only [List.foldlM_nil, pure, Except.pure, Except.ok.injEq] at hf
        subst hf; simpa using hinv
      | cons b bs ih =>
        intro R ll done res hinv hf
        rw [List.foldlM_cons] at hf
        simp only [bind, Except.bind] at hf
        split at hf
        · cases hf
        · rename_i r1 hr1
          obtain ⟨R1, l1⟩ := r1
          have h1 := track_step t names hl hfit hnd (getWidth maxwidth) maxwidth start qs hq hs R ll done b hinv R1 l1 (by
            simp only [bind, Except.bind]; exact hr1)
          have := ih R1 l1 (done ++ [b]) res h1 hf
          simpa [List.append_assoc] using this
    have := key (b0 :: bs) [] 0 [] res ⟨[], rfl, by simp, rfl⟩ hfold
    obtain ⟨systems, h1, h2, h3⟩ := this
    exact ⟨start, systems, h1, h2, by simpa using h3⟩

/-- every registered tuning without courses: no label contains a digit (whole registry) - with `registered_labels_fit`
    the two side conditions of `fromTrack_decode` hold for all of them -/
theorem registered_labels_nodigit : ∀ e ∈ registered, singleStrings e.tuning = true →
    (match labels e.tuning with
     | .ok names => names.all (fun x => (x.filter Char.isDigit).isEmpty)
     | .error _ => false) = true := by
  decide +kernel

/-- non-vacuity (kernel): a track of three bars on the standard guitar at page width 80: a system showing two bars (the
    second glued on), then a system with the third -/
private def nt2 (s : String) (o : Int) : Note := ⟨s.toList, o, 1, 64⟩
private def tbar1 : TBar := ⟨4, 4, [⟨4, some [nt2 "C" 3, nt2 "E" 3]⟩, ⟨4, none⟩, ⟨2, some [nt2 "A" 4]⟩]⟩
example : (fromTrack defaultTuning [tbar1, tbar1, tbar1] 80).toOption.map (fun R => (R.length, (R.getD 3 []).filter Char.isDigit)) =
    some (18, lit "55") := by decide +kernel

end Mingus.Props.C20
