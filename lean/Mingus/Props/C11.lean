import Mingus.Model.Containers
import Mingus.Lemmas.Intervals
import Mingus.Props.C03
/-
  C11 — transposition is semitone-exact and reversible at every container level.
  Note level: octave-translation invariance (any octave) + kernel evaluation of the whole table of canonical names with up
  to four accidentals × 35 shorthands × both directions.  Container levels: structural theorems (any size).
-/
namespace Mingus.Props.C11
open Mingus Mingus.Notes Mingus.Intervals Mingus.Containers

/-! ### octave-translation invariance of Note.transpose -/
def shiftOct (n : Note) (o : Int) : Note := { n with octave := n.octave + o }

theorem toInt_shift (n : Note) (o : Int) : (shiftOct n o).toInt = n.toInt.map (· + 12 * o) := by
  unfold Note.toInt shiftOct
  cases n.name with
  | nil => rfl
  | cons l t =>
    simp only [bind, Except.bind]
    cases noteToInt [l] with
    | error e => rfl
    | ok b => simp only [pure, Except.pure, Except.map]; congr 1; omega

theorem lt_shift (a b : Note) (o : Int) : Note.lt (shiftOct a o) (shiftOct b o) = Note.lt a b := by
  simp only [Note.lt, toInt_shift, bind, Except.bind]
  cases a.toInt <;> cases b.toInt <;> simp [Except.map, pure, Except.pure]

theorem eq_shift (a b : Note) (o : Int) : Note.eq (shiftOct a o) (shiftOct b o) = Note.eq a b := by
  simp only [Note.eq, toInt_shift, bind, Except.bind]
  cases a.toInt <;> cases b.toInt <;> simp [Except.map, pure, Except.pure]

theorem gt_shift (a b : Note) (o : Int) : Note.gt (shiftOct a o) (shiftOct b o) = Note.gt a b := by
  simp only [Note.gt, lt_shift, eq_shift]

/-- transposing commutes with moving the note by whole octaves -/
theorem transpose_shift (n : Note) (o : Int) (iv : Str) (up : Bool) :
    (shiftOct n o).transpose iv up = (n.transpose iv up).map (fun r => shiftOct r o) := by
  unfold Note.transpose
  simp only [shiftOct, bind, Except.bind]
  cases Intervals.fromShorthand n.name iv up with
  | error e => rfl
  | ok v =>
    cases v with
    | str nm =>
      simp only
      have h1 := lt_shift { n with name := nm } n o
      have h2 := gt_shift { n with name := nm } n o
      simp only [shiftOct] at h1 h2
      cases up
      · simp only [Bool.false_eq_true, if_false]
        rw [h2]
        cases Note.gt { n with name := nm } n with
        | error e => rfl
        | ok g =>
          cases g
          · simp [pure, Except.pure, Except.map, shiftOct]
          · simp only [pure, Except.pure, Except.map, shiftOct, if_true]; congr 2; omega
      · simp only [if_true]
        rw [h1]
        cases Note.lt { n with name := nm } n with
        | error e => rfl
        | ok g =>
          cases g
          · simp [pure, Except.pure, Except.map, shiftOct]
          · simp only [pure, Except.pure, Except.map, shiftOct, if_true]; congr 2; omega
    | _ => rfl

/-! ### the whole table at octave 0 (kernel) -/
def accRange : List Int := [-4, -3, -2, -1, 0, 1, 2, 3, 4]
def sizeOf (sh : Str) : Int :=
  C03.majorSize.getD (((sh.getLastD '1').toNat - 49)) 0 + accVal sh.dropLast
def degOf (sh : Str) : Nat := (sh.getLastD '1').toNat - 49
/-- letter `k` steps below -/
def letterDown (l : Char) (k : Nat) : Char := letterUp l ((7 - k % 7) % 7)

/-- up and down each move the pitch number by exactly the interval's size, land on the required letter and keep the dynamics -/
def transposeOK (l : Char) (v : Int) (sh : Str) : Bool :=
  let n : Note := ⟨rep l v, 0, 1, 64⟩
  let size := sizeOf sh
  if size < 0 ∨ size > 11 then true else
  (match n.transpose sh true with
   | .ok r => r.pitch == n.pitch + size && r.name.head? == some (letterUp l (degOf sh)) && r.channel == 1 && r.velocity == 64
   | _ => false) &&
  (match n.transpose sh false with
   | .ok r => r.pitch == n.pitch - size && r.name.head? == some (letterDown l (degOf sh)) && r.channel == 1 && r.velocity == 64
   | _ => false)

/-- up followed by down restores name and octave -/
def upDownOK (l : Char) (v : Int) (sh : Str) : Bool :=
  let n : Note := ⟨rep l v, 0, 1, 64⟩
  let size := sizeOf sh
  if size < 0 ∨ size > 11 then true else
  match n.transpose sh true with
  | .ok r => (match r.transpose sh false with
    | .ok back => back.name == n.name && back.octave == n.octave
    | _ => false)
  | _ => false

theorem transpose_table : ∀ l ∈ Keys.baseScale, ∀ v ∈ accRange, ∀ sh ∈ C03.shorthands, transposeOK l v sh = true := by
  decide +kernel
theorem updown_table : ∀ l ∈ Keys.baseScale, ∀ v ∈ [(-3 : Int), -2, -1, 0, 1, 2, 3], ∀ sh ∈ C03.shorthands,
    upDownOK l v sh = true := by decide +kernel
/-- beyond three accidentals the identity stops (the > 6 re-spelling of the constructors), cf. C03.up_down_limit -/
theorem updown_limit : upDownOK 'C' 4 (lit "##5") = false := by decide +kernel

theorem pitch_shift (n : Note) (o : Int) (h : n.name ≠ []) : (shiftOct n o).pitch = n.pitch + 12 * o := by
  unfold Note.pitch shiftOct
  cases hn : n.name with
  | nil => exact absurd hn h
  | cons l t => simp only; omega

/-- Main Note-level theorem, ANY octave: canonical names with up to four accidentals, every shorthand of size 0..11 -/
theorem transpose_spec (l : Char) (hl : l ∈ Keys.baseScale) (v : Int) (hv : v ∈ accRange) (sh : Str) (hsh : sh ∈ C03.shorthands)
    (hsize : 0 ≤ sizeOf sh ∧ sizeOf sh ≤ 11) (o ch vel : Int) :
    (∃ r, (Note.mk (rep l v) o 1 64).transpose sh true = .ok r ∧ r.pitch = (Note.mk (rep l v) o 1 64).pitch + sizeOf sh ∧
      r.name.head? = some (letterUp l (degOf sh))) ∧
    (∃ r, (Note.mk (rep l v) o 1 64).transpose sh false = .ok r ∧ r.pitch = (Note.mk (rep l v) o 1 64).pitch - sizeOf sh ∧
      r.name.head? = some (letterDown l (degOf sh))) := by
  have ht := transpose_table l hl v hv sh hsh
  have hne : ¬ (sizeOf sh < 0 ∨ sizeOf sh > 11) := by omega
  simp only [transposeOK, hne, if_false, Bool.and_eq_true] at ht
  have hshift : (Note.mk (rep l v) o 1 64) = shiftOct ⟨rep l v, 0, 1, 64⟩ o := by simp [shiftOct]
  have hnn : (rep l v) ≠ [] := by simp [rep]
  obtain ⟨hu, hd⟩ := ht
  constructor
  · cases hr : (Note.mk (rep l v) 0 1 64).transpose sh true with
    | error e => simp [hr] at hu
    | ok r =>
      simp only [hr, Bool.and_eq_true, beq_iff_eq] at hu
      have hrn : r.name ≠ [] := by intro e; rw [e] at hu; simp at hu
      refine ⟨shiftOct r o, by rw [hshift, transpose_shift, hr]; rfl, ?_, by simpa [shiftOct] using hu.1.1.2⟩
      rw [pitch_shift r o hrn, hshift, pitch_shift _ o hnn, hu.1.1.1]; omega
  · cases hr : (Note.mk (rep l v) 0 1 64).transpose sh false with
    | error e => simp [hr] at hd
    | ok r =>
      simp only [hr, Bool.and_eq_true, beq_iff_eq] at hd
      have hrn : r.name ≠ [] := by intro e; rw [e] at hd; simp at hd
      refine ⟨shiftOct r o, by rw [hshift, transpose_shift, hr]; rfl, ?_, by simpa [shiftOct] using hd.1.1.2⟩
      rw [pitch_shift r o hrn, hshift, pitch_shift _ o hnn, hd.1.1.1]; omega

/-! ### augment then diminish -/
/-- identity on every unmixed name, any number of accidentals -/
theorem augment_diminish_id (l : Char) (hl : isLetter l = true) (v : Int) : diminish (augment (rep l v)) = rep l v := by
  rw [augment_rep l (letter_ne_b hl), diminish_rep l (letter_ne_sharp hl)]; congr 1; omega
def C11_augdim_full : Prop := ∀ n : Str, valid n = true → diminish (augment n) = n
/-- the recorded finding: a mixed name ending in '#b' loses both accidentals -/
theorem augment_diminish_counterexample : ¬ C11_augdim_full := by
  intro h; have := h (lit "C#b") (by decide); revert this; decide

/-! ### container levels: the operation is applied to every note; rests, values and beats are untouched -/
theorem mapM_length {α β} (f : α → Except Err β) (l : List α) (r : List β) (h : l.mapM f = .ok r) : r.length = l.length := by
  induction l generalizing r with
  | nil => simp [pure, Except.pure] at h; subst h; rfl
  | cons a t ih =>
    simp only [List.mapM_cons, bind, Except.bind] at h
    split at h
    · cases h
    · split at h
      · cases h
      · rename_i b _ bs hbs
        simp only [pure, Except.pure, Except.ok.injEq] at h; subst h
        simp [ih bs hbs]

theorem mapM_get {α β} (f : α → Except Err β) (l : List α) (r : List β) (h : l.mapM f = .ok r) (i : Nat) (hi : i < l.length) :
    ∃ hr : i < r.length, f l[i] = .ok r[i] := by
  induction l generalizing r i with
  | nil => simp at hi
  | cons a t ih =>
    simp only [List.mapM_cons, bind, Except.bind] at h
    split at h
    · cases h
    · rename_i b hb
      split at h
      · cases h
      · rename_i bs hbs
        simp only [pure, Except.pure, Except.ok.injEq] at h; subst h
        cases i with
        | zero => exact ⟨by simp, by simpa using hb⟩
        | succ k =>
          obtain ⟨hr, e⟩ := ih bs hbs k (by simpa using hi)
          exact ⟨by simpa using hr, by simpa using e⟩

/-- NoteContainer.transpose / augment / diminish: exactly the note-level operation on every note, in place -/
theorem nc_lifts (nc r : NC) (iv : Str) (up : Bool) (h : NC.transpose nc iv up = .ok r) :
    r.length = nc.length ∧ ∀ i (hi : i < nc.length), ∃ hr : i < r.length, nc[i].transpose iv up = .ok r[i] :=
  ⟨mapM_length _ _ _ h, fun i hi => mapM_get _ _ _ h i hi⟩

/-- Bar level: same number of entries, each with its beat and value; rests stay rests; every sounding entry gets the
    container-level operation -/
theorem bar_lifts (b b' : Bar) (f : NC → Except Err NC) (h : Bar.mapContent b f = .ok b') :
    b'.current = b.current ∧ b'.length = b.length ∧ b'.meter = b.meter ∧ b'.key = b.key ∧
    b'.entries.length = b.entries.length ∧
    ∀ i (hi : i < b.entries.length), ∃ hr : i < b'.entries.length,
      b'.entries[i].start = b.entries[i].start ∧ b'.entries[i].value = b.entries[i].value ∧
      (match b.entries[i].content with
       | none => b'.entries[i].content = none
       | some nc => ∃ nc', f nc = .ok nc' ∧ b'.entries[i].content = some nc') := by
  simp only [Bar.mapContent, bind, Except.bind] at h
  split at h
  · cases h
  · rename_i es hes
    simp only [pure, Except.pure, Except.ok.injEq] at h; subst h
    refine ⟨rfl, rfl, rfl, rfl, mapM_length _ _ _ hes, ?_⟩
    intro i hi
    obtain ⟨hr, e⟩ := mapM_get _ _ _ hes i hi
    refine ⟨hr, ?_⟩
    cases hc : b.entries[i].content with
    | none => simp only [hc, pure, Except.pure, Except.ok.injEq] at e; rw [← e]; simp [hc]
    | some nc =>
      simp only [hc, bind, Except.bind] at e
      split at e
      · cases e
      · rename_i nc' hnc'
        simp only [pure, Except.pure, Except.ok.injEq] at e
        rw [← e]; exact ⟨rfl, rfl, nc', hnc', rfl⟩

/-- Track level: bar by bar -/
theorem track_lifts (t t' : Track) (f : Bar → Except Err Bar) (h : Track.mapBars t f = .ok t') :
    t'.bars.length = t.bars.length ∧ t'.instrument = t.instrument ∧
    ∀ i (hi : i < t.bars.length), ∃ hr : i < t'.bars.length, f t.bars[i] = .ok t'.bars[i] := by
  simp only [Track.mapBars, bind, Except.bind] at h
  split at h
  · cases h
  · rename_i bs hbs
    simp only [pure, Except.pure, Except.ok.injEq] at h; subst h
    exact ⟨mapM_length _ _ _ hbs, rfl, fun i hi => mapM_get _ _ _ hbs i hi⟩

/-- non-vacuity -/
example : (Note.mk (lit "B#") 4 1 64).transpose (lit "2") true = .ok ⟨lit "C##", 5, 1, 64⟩ := by decide +kernel
example : (Note.mk (lit "Db") 4 1 64).transpose (lit "b7") false = .ok ⟨lit "Eb", 3, 1, 64⟩ := by decide +kernel

end Mingus.Props.C11
