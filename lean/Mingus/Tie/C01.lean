import Mingus.Gen.Notes
import Mingus.Model.Notes
/- Tie A for C01: the tables regenerated from mingus/core/notes.py equal the model's. -/
namespace Mingus.Tie.C01
theorem tie_noteDict : Gen.Notes.noteDict = Notes.noteDict := by decide
theorem tie_fifths : Gen.Notes.fifths = Notes.fifths := by decide
theorem tie_ns : Gen.Notes.ns = Notes.ns := by decide
theorem tie_nf : Gen.Notes.nf = Notes.nf := by decide
end Mingus.Tie.C01
