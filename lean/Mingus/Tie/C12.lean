import Mingus.Gen.NoteContainer
import Mingus.Gen.Note
import Mingus.Gen.Chords
import Mingus.Model.Containers
import Mingus.Tie.C06
/- Tie A for C12: the octave expressions of `add_note` (given octave, 4 for an empty container, the top note's octave,
   that octave + 1), the default octave of `remove_note`, the duplicate test; the chord table used by the constructors. -/
namespace Mingus.Tie.C12
open Mingus
theorem tie_addNoteOctaves : Gen.NoteContainer.addNoteOctaves =
    [lit "octave", lit "4", lit "self.notes[-1].octave", lit "self.notes[-1].octave + 1", lit "self.notes[-1].octave"] := by decide
theorem tie_removeDefault : Gen.NoteContainer.removeDefaultOctave = -1 := by decide
theorem tie_duplicateTest : Gen.NoteContainer.duplicateTest = [lit "note not in self.notes"] := by decide
theorem tie_noteDefaults : Gen.Note.defaults = [4, 1, 64] := by decide
theorem tie_chordShorthand : Tie.C06.sameMap Gen.Chords.chordShorthand Chords.chordShorthand = true := Tie.C06.tie_chordShorthand
end Mingus.Tie.C12
