import Mingus.Gen.Sequencer
import Mingus.Model.Sequencer
/- Tie A for C18: every statement of Sequencer (registry, guards, play/stop, the sequential walkers, the parallel scheduler
   play_Bars, play_Tracks, play_Composition), the message numbers, SequencerObserver.notify, and the General MIDI name
   table - regenerated from /repo on every run and compared with what the model (Model/Sequencer.lean, Model/GM.lean) was
   written against. -/
namespace Mingus.Tie.C18
open Mingus

def msgConstsExpected : List (List Char × List Char) :=
  [(lit "output", lit "None"),
   (lit "MSG_PLAY_INT", lit "0"),
   (lit "MSG_STOP_INT", lit "1"),
   (lit "MSG_CC", lit "2"),
   (lit "MSG_INSTR", lit "3"),
   (lit "MSG_SLEEP", lit "4"),
   (lit "MSG_PLAY_NOTE", lit "5"),
   (lit "MSG_STOP_NOTE", lit "6"),
   (lit "MSG_PLAY_NC", lit "7"),
   (lit "MSG_STOP_NC", lit "8"),
   (lit "MSG_PLAY_BAR", lit "9"),
   (lit "MSG_PLAY_BARS", lit "10"),
   (lit "MSG_PLAY_TRACK", lit "11"),
   (lit "MSG_PLAY_TRACKS", lit "12"),
   (lit "MSG_PLAY_COMPOSITION", lit "13")]

theorem tie_msgConsts : Gen.Sequencer.msgConsts = msgConstsExpected := rfl

def sourcesExpected : List (List Char × List (List Char)) :=
  [(lit "__init__", [lit "self.listeners = []", lit "self.init()"]),
   (lit "attach", [lit "if listener not in self.listeners:\n    self.listeners.append(listener)"]),
   (lit "detach", [lit "if listener in self.listeners:\n    self.listeners.remove(listener)"]),
   (lit "notify_listeners", [lit "for c in self.listeners:\n    c.notify(msg_type, params)"]),
   (lit "set_instrument", [lit "self.instr_event(channel, instr, bank)", lit "self.notify_listeners(self.MSG_INSTR, {'channel': int(channel), 'instr': int(instr), 'bank': int(bank)})"]),
   (lit "control_change", [lit "if control < 0 or control > 128:\n    return False", lit "if value < 0 or value > 128:\n    return False", lit "self.cc_event(channel, control, value)", lit "self.notify_listeners(self.MSG_CC, {'channel': int(channel), 'control': int(control), 'value': int(value)})", lit "return True"]),
   (lit "play_Note", [lit "if hasattr(note, 'velocity'):\n    velocity = note.velocity", lit "if hasattr(note, 'channel'):\n    channel = note.channel", lit "self.play_event(int(note) + 12, int(channel), int(velocity))", lit "self.notify_listeners(self.MSG_PLAY_INT, {'channel': int(channel), 'note': int(note) + 12, 'velocity': int(velocity)})", lit "self.notify_listeners(self.MSG_PLAY_NOTE, {'channel': int(channel), 'note': note, 'velocity': int(velocity)})", lit "return True"]),
   (lit "stop_Note", [lit "if hasattr(note, 'channel'):\n    channel = note.channel", lit "self.stop_event(int(note) + 12, int(channel))", lit "self.notify_listeners(self.MSG_STOP_INT, {'channel': int(channel), 'note': int(note) + 12})", lit "self.notify_listeners(self.MSG_STOP_NOTE, {'channel': int(channel), 'note': note})", lit "return True"]),
   (lit "play_NoteContainer", [lit "self.notify_listeners(self.MSG_PLAY_NC, {'notes': nc, 'channel': channel, 'velocity': velocity})", lit "if nc is None:\n    return True", lit "for note in nc:\n    if not self.play_Note(note, channel, velocity):\n        return False", lit "return True"]),
   (lit "stop_NoteContainer", [lit "self.notify_listeners(self.MSG_STOP_NC, {'notes': nc, 'channel': channel})", lit "if nc is None:\n    return True", lit "for note in nc:\n    if not self.stop_Note(note, channel):\n        return False", lit "return True"]),
   (lit "play_Bar", [lit "self.notify_listeners(self.MSG_PLAY_BAR, {'bar': bar, 'channel': channel, 'bpm': bpm})", lit "qn_length = 60.0 / bpm", lit "for nc in bar:\n    if not self.play_NoteContainer(nc[2], channel, 100):\n        return {}\n    if hasattr(nc[2], 'bpm'):\n        bpm = nc[2].bpm\n        qn_length = 60.0 / bpm\n    ms = qn_length * (4.0 / nc[1])\n    self.sleep(ms)\n    self.notify_listeners(self.MSG_SLEEP, {'s': ms})\n    self.stop_NoteContainer(nc[2], channel)", lit "return {'bpm': bpm}"]),
   (lit "play_Bars", [lit "self.notify_listeners(self.MSG_PLAY_BARS, {'bars': bars, 'channels': channels, 'bpm': bpm})", lit "qn_length = 60.0 / bpm", lit "tick = 0.0", lit "cur = [0] * len(bars)", lit "playing = []", lit "while tick < bars[0].length:\n    playing_new = []\n    for n, x in enumerate(cur):\n        start_tick, note_length, nc = bars[n][x]\n        if start_tick <= tick:\n            self.play_NoteContainer(nc, channels[n])\n            playing_new.append([note_length, n])\n            playing.append([note_length, nc, channels[n], n])\n            if hasattr(nc, 'bpm'):\n                bpm = nc.bpm\n                qn_length = 60.0 / bpm\n    if len(playing_new) != 0:\n        playing_new.sort()\n        shortest = playing_new[-1][0]\n        ms = qn_length * (4.0 / shortest)\n        self.sleep(ms)\n        self.notify_listeners(self.MSG_SLEEP, {'s': ms})\n    elif len(playing) != 0:\n        playing.sort()\n        shortest = playing[-1][0]\n        ms = qn_length * (4.0 / shortest)\n        self.sleep(ms)\n        self.notify_listeners(self.MSG_SLEEP, {'s': ms})\n    else:\n        return {}\n    tick += 1.0 / shortest\n    new_playing = []\n    for length, nc, chan, n in playing:\n        duration = 1.0 / length - 1.0 / shortest\n        if duration >= 1e-05:\n            new_playing.append([1.0 / duration, nc, chan, n])\n        else:\n            self.stop_NoteContainer(nc, chan)\n            if cur[n] < len(bars[n]) - 1:\n                cur[n] += 1\n    playing = new_playing", lit "for p in playing:\n    self.stop_NoteContainer(p[1], p[2])\n    playing.remove(p)", lit "return {'bpm': bpm}"]),
   (lit "play_Track", [lit "self.notify_listeners(self.MSG_PLAY_TRACK, {'track': track, 'channel': channel, 'bpm': bpm})", lit "for bar in track:\n    res = self.play_Bar(bar, channel, bpm)\n    if res != {}:\n        bpm = res['bpm']\n    else:\n        return {}", lit "return {'bpm': bpm}"]),
   (lit "play_Tracks", [lit "self.notify_listeners(self.MSG_PLAY_TRACKS, {'tracks': tracks, 'channels': channels, 'bpm': bpm})", lit "for x in range(len(tracks)):\n    instr = tracks[x].instrument\n    if isinstance(instr, MidiInstrument):\n        try:\n            i = instr.names.index(instr.name)\n        except:\n            i = instr.instrument_nr\n        self.set_instrument(channels[x], i)\n    else:\n        self.set_instrument(channels[x], 1)", lit "current_bar = 0", lit "max_bar = len(tracks[0])", lit "while current_bar < max_bar:\n    playbars = []\n    for tr in tracks:\n        playbars.append(tr[current_bar])\n    res = self.play_Bars(playbars, channels, bpm)\n    if res != {}:\n        bpm = res['bpm']\n    else:\n        return {}\n    current_bar += 1", lit "return {'bpm': bpm}"]),
   (lit "play_Composition", [lit "self.notify_listeners(self.MSG_PLAY_COMPOSITION, {'composition': composition, 'channels': channels, 'bpm': bpm})", lit "if channels == None:\n    channels = [x + 1 for x in range(len(composition.tracks))]", lit "return self.play_Tracks(composition.tracks, channels, bpm)"]),
   (lit "modulation", [lit "return self.control_change(channel, 1, value)"]),
   (lit "main_volume", [lit "return self.control_change(channel, 7, value)"])]

theorem tie_sources : Gen.Sequencer.sources = sourcesExpected := rfl

def observerNotifyExpected : List (List Char) :=
  [lit "if msg_type == Sequencer.MSG_PLAY_INT:\n    self.play_int_note_event(params['note'], params['channel'], params['velocity'])\nelif msg_type == Sequencer.MSG_STOP_INT:\n    self.stop_int_note_event(params['note'], params['channel'])\nelif msg_type == Sequencer.MSG_CC:\n    self.cc_event(params['channel'], params['control'], params['value'])\nelif msg_type == Sequencer.MSG_INSTR:\n    self.instr_event(params['channel'], params['instr'], params['bank'])\nelif msg_type == Sequencer.MSG_SLEEP:\n    self.sleep(params['s'])\nelif msg_type == Sequencer.MSG_PLAY_NOTE:\n    self.play_Note(params['note'], params['channel'], params['velocity'])\nelif msg_type == Sequencer.MSG_STOP_NOTE:\n    self.stop_Note(params['note'], params['channel'])\nelif msg_type == Sequencer.MSG_PLAY_NC:\n    self.play_NoteContainer(params['notes'], params['channel'])\nelif msg_type == Sequencer.MSG_STOP_NC:\n    self.stop_NoteContainer(params['notes'], params['channel'])\nelif msg_type == Sequencer.MSG_PLAY_BAR:\n    self.play_Bar(params['bar'], params['channel'], params['bpm'])\nelif msg_type == Sequencer.MSG_PLAY_BARS:\n    self.play_Bars(params['bars'], params['channels'], params['bpm'])\nelif msg_type == Sequencer.MSG_PLAY_TRACK:\n    self.play_Track(params['track'], params['channel'], params['bpm'])\nelif msg_type == Sequencer.MSG_PLAY_TRACKS:\n    self.play_Tracks(params['tracks'], params['channels'], params['bpm'])\nelif msg_type == Sequencer.MSG_PLAY_COMPOSITION:\n    self.play_Composition(params['composition'], params['channels'], params['bpm'])"]

theorem tie_observerNotify : Gen.Sequencer.observerNotify = observerNotifyExpected := rfl

def midiInstrumentDefaultsExpected : List (List Char × List Char) :=
  [(lit "instrument_nr", lit "1"),
   (lit "name", lit "''")]

theorem tie_midiInstrumentDefaults : Gen.Sequencer.midiInstrumentDefaults = midiInstrumentDefaultsExpected := rfl

/-- the General MIDI names the model resolves instrument names with are the source's -/
theorem tie_gm_names : Gen.Sequencer.gmNames = GM.names := rfl

end Mingus.Tie.C18
