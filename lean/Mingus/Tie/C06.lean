import Mingus.Gen.Chords
import Mingus.Gen.Intervals
import Mingus.Model.Chords
/- Tie A for C06: the builders of chords.py, normalised by the translator's symbolic evaluation to lists of
   note expressions, and the two shorthand dictionaries, equal the model's (as finite maps). -/
namespace Mingus.Tie.C06
open Mingus Mingus.Chords

def sameMap {β} [DecidableEq β] (a b : List (Str × β)) : Bool :=
  a.length == b.length && (a.map (·.1)).Nodup && a.all (fun r => b.lookup r.1 == some r.2)

theorem tie_chordShorthand : sameMap Gen.Chords.chordShorthand chordShorthand = true := by decide +kernel
theorem tie_chordMeaning : sameMap Gen.Chords.chordMeaning chordMeaning = true := by decide +kernel
theorem tie_namedBuilders : sameMap Gen.Chords.namedBuilders namedBuilders = true := by decide +kernel
theorem tie_ctorTable : Gen.Intervals.ctorTable = Intervals.ctorTable := by decide
theorem tie_aliasTable : Gen.Intervals.aliasTable = Intervals.aliasTable := by decide
end Mingus.Tie.C06
