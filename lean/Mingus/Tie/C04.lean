import Mingus.Gen.Keys
import Mingus.Gen.Notes
import Mingus.Gen.Intervals
import Mingus.Model.Intervals
/- Tie A for C04: key table, base scale, fifths and the diatonic step numbers. -/
namespace Mingus.Tie.C04
open Mingus
theorem tie_keys : Gen.Keys.keys = Keys.keys := by decide
theorem tie_baseScale : Gen.Keys.baseScale = Keys.baseScale := by decide
theorem tie_fifths : Gen.Notes.fifths = Notes.fifths := by decide
theorem tie_degreeFns : Gen.Intervals.degreeFns = Intervals.degreeFns := by decide
end Mingus.Tie.C04
