import Mingus.Gen.Note
import Mingus.Gen.Notes
import Mingus.Model.Note
/- Tie A for C10: defaults and MIDI bounds of Note, the note-name tables, and the source text of the two Hz formulas
   (whose constants 57, 12, 1024, 1/24, 9, 6 are what Props/C10Hz.lean idealises over the reals). -/
namespace Mingus.Tie.C10
open Mingus
theorem tie_defaults : Gen.Note.defaultName = lit "C" ∧ Gen.Note.defaults = [4, 1, 64] := by decide
theorem tie_bounds : Gen.Note.channelBound = (0, lit "LtE", lit "Lt", 16) ∧
    Gen.Note.velocityBound = (0, lit "LtE", lit "Lt", 128) := by decide
theorem tie_hz : Gen.Note.hzSource =
    [lit "diff = self.__int__() - 57", lit "return 2 ** (diff / 12.0) * standard_pitch",
     lit "value = (log(float(hertz) * 1024 / standard_pitch, 2) + 1.0 / 24) * 12 + 9",
     lit "self.name = notes.int_to_note(int(value) % 12)", lit "self.octave = int(value / 12) - 6", lit "return self"] := by
  decide
theorem tie_noteDict : Gen.Notes.noteDict = Notes.noteDict := by decide
theorem tie_ns : Gen.Notes.ns = Notes.ns := by decide
end Mingus.Tie.C10
