import Mingus.Gen.Track
import Mingus.Gen.Bar
import Mingus.Model.Containers
/- Tie A for C14: the statements of Track.add_notes after the range gate (default value 4, first bar, fresh bar with the
   last bar's key and meter after a full bar, place in the last bar), the instrument ranges, the guitar's six-note limit,
   Composition's selection statements. -/
namespace Mingus.Tie.C14
open Mingus Mingus.Containers
def nl : Str := [Char.ofNat 10]
theorem tie_addNotes : Gen.Track.addNotesSource.drop 1 =
    [lit "if duration == None:" ++ nl ++ lit "    duration = 4",
     lit "if len(self.bars) == 0:" ++ nl ++ lit "    self.bars.append(Bar())", lit "last_bar = self.bars[-1]",
     lit "if last_bar.is_full():" ++ nl ++ lit "    self.bars.append(Bar(last_bar.key, last_bar.meter))",
     lit "return self.bars[-1].place_notes(note, duration)"] := by decide
theorem tie_gate : (Gen.Track.addNotesSource.headD []).take 97 =
    lit "if self.instrument != None and note is not None:" ++ nl ++ lit "    if not self.instrument.can_play_notes(note):" := by
  decide
def rangeOf (i : Instrument) : List Char × Int × List Char × Int := (i.lo.name, i.lo.octave, i.hi.name, i.hi.octave)
theorem tie_ranges : Gen.Track.ranges.map (fun r => (r.2.1, r.2.2.1, r.2.2.2.1, r.2.2.2.2)) =
    [rangeOf genericInstrument, rangeOf piano, rangeOf guitar, rangeOf midiInstrument] := by decide
theorem tie_guitarLimit : Gen.Track.guitarLimit = [lit "len(notes) > 6"] ∧ guitar.maxNotes = some 6 := by decide
theorem tie_composition : Gen.Track.compositionSource.drop 1 =
    [lit "self.tracks.append(track)", lit "self.selected_tracks = [len(self.tracks) - 1]",
     lit "for n in self.selected_tracks:" ++ nl ++ lit "    self.tracks[n] + note"] := by decide
theorem tie_acceptCondition : Gen.Bar.acceptCondition =
    [lit "self.current_beat + 1.0 / duration <= self.length or self.length == 0.0"] := by decide
end Mingus.Tie.C14
