import Mingus.Gen.Value
import Mingus.Model.Value
/- Tie A for C09: base values, the float thresholds of `determine` as exact rationals with the tuple each branch
   returns, the multi-dot fingerprints, the doubles `dots` produces, the tuplet helper ratios. -/
namespace Mingus.Tie.C09
open Mingus Mingus.Value
theorem tie_baseValues : Gen.Value.baseValues = baseValues := by decide +kernel
theorem tie_chain : Gen.Value.chain =
    [(thrBase, lit "v", 0, 1, 1), (thrSeptuplet, lit "base_values[i + 1]", 0, 7, 4),
     (thrTriplet, lit "base_values[i + 1]", 0, 3, 2), (thrDotted, lit "v", 1, 1, 1),
     (thrQuintuplet, lit "base_values[i + 1]", 0, 5, 4)] := by decide +kernel
theorem tie_fingerprints : Gen.Value.fingerprints = dotFingerprints := by decide +kernel
theorem tie_dotConst : Gen.Value.dotConst = dotConst := by decide +kernel
theorem tie_tupletHelpers : Gen.Value.tupletHelpers = [(lit "triplet", 3, 2), (lit "quintuplet", 5, 4)] := by decide
end Mingus.Tie.C09
