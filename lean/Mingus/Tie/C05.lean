import Mingus.Gen.Scales
import Mingus.Gen.Keys
import Mingus.Gen.Intervals
import Mingus.Model.Scales
/- Tie A for C05: class order and types (what `determine` scans), the modes' semitone positions, and the
   straight-line bodies of the key-derived classes (base expression + alterations). -/
namespace Mingus.Tie.C05
open Mingus Mingus.Scales

def kindName : Kind → Str
  | .diatonic _ => lit "Diatonic" | .ionian => lit "Ionian" | .dorian => lit "Dorian" | .phrygian => lit "Phrygian"
  | .lydian => lit "Lydian" | .mixolydian => lit "Mixolydian" | .aeolian => lit "Aeolian" | .locrian => lit "Locrian"
  | .major => lit "Major" | .harmonicMajor => lit "HarmonicMajor" | .naturalMinor => lit "NaturalMinor"
  | .harmonicMinor => lit "HarmonicMinor" | .melodicMinor => lit "MelodicMinor" | .bachian => lit "Bachian"
  | .minorNeapolitan => lit "MinorNeapolitan" | .chromatic => lit "Chromatic" | .wholeTone => lit "WholeTone"
  | .octatonic => lit "Octatonic"

theorem tie_classOrder :
    Gen.Scales.classOrder = (lit "Diatonic", lit "diatonic") :: classOrder.map (fun kc => (kindName kc.1, kc.2)) := by
  decide
theorem tie_modeTable : Gen.Scales.modeTable = modeTable := by decide
theorem tie_modeSemis : ∀ r ∈ modeTable, ∃ k, kindName k = r.1 ∧ modeSemis k = some [r.2.1, r.2.2] := by
  intro r hr
  simp only [modeTable, List.mem_cons, List.mem_nil_iff, or_false] at hr
  rcases hr with e | e | e | e | e | e | e <;> subst e
  · exact ⟨.ionian, rfl, rfl⟩
  · exact ⟨.dorian, rfl, rfl⟩
  · exact ⟨.phrygian, rfl, rfl⟩
  · exact ⟨.lydian, rfl, rfl⟩
  · exact ⟨.mixolydian, rfl, rfl⟩
  · exact ⟨.aeolian, rfl, rfl⟩
  · exact ⟨.locrian, rfl, rfl⟩

/-- the key-derived classes: base expression and `notes[i] = augment|diminish(notes[i])` lines, as modelled in
    `Scales.baseAsc` / `Scales.descending` -/
theorem tie_derived : Gen.Scales.derived =
    ([(lit "Major", lit "ascending", lit "get_notes(self.tonic)", []),
     (lit "HarmonicMajor", lit "ascending", lit "Major(self.tonic).ascending()[:-1]", [(5, lit "diminish")]),
     (lit "NaturalMinor", lit "ascending", lit "get_notes(self.tonic.lower())", []),
     (lit "HarmonicMinor", lit "ascending", lit "NaturalMinor(self.tonic).ascending()[:-1]", [(6, lit "augment")]),
     (lit "MelodicMinor", lit "ascending", lit "NaturalMinor(self.tonic).ascending()[:-1]",
        [(5, lit "augment"), (6, lit "augment")]),
     (lit "MelodicMinor", lit "descending", lit "NaturalMinor(self.tonic).descending()[:-1]", []),
     (lit "Bachian", lit "ascending", lit "MelodicMinor(self.tonic).ascending()[:-1]", []),
     (lit "MinorNeapolitan", lit "ascending", lit "HarmonicMinor(self.tonic).ascending()[:-1]", [(1, lit "diminish")]),
     (lit "MinorNeapolitan", lit "descending", lit "NaturalMinor(self.tonic).descending()[:-1]", [(6, lit "diminish")])] :
      List (List Char × List Char × List Char × List (Nat × List Char))) := by
  rfl
theorem tie_keys : Gen.Keys.keys = Keys.keys := by decide
theorem tie_ctorTable : Gen.Intervals.ctorTable = Intervals.ctorTable := by decide
end Mingus.Tie.C05
