import Mingus.Gen.Chords
import Mingus.Gen.Progressions
import Mingus.Gen.Keys
import Mingus.Model.Progressions
import Mingus.Tie.C06
/- Tie A for C08: function/alias table of chords.py, the tables of progressions.py. -/
namespace Mingus.Tie.C08
open Mingus Mingus.Chords Mingus.Progressions
theorem tie_functionTable : Tie.C06.sameMap Gen.Chords.functionTable functionTable = true := by decide +kernel
theorem tie_numerals : Gen.Progressions.numerals = numerals := by decide
theorem tie_numeralIntervals : Gen.Progressions.numeralIntervals = numeralIntervals := by decide
theorem tie_funcDict : Gen.Progressions.funcDict = funcDict := by decide
theorem tie_expectedChord : Gen.Progressions.expectedChord = expectedChord := by decide
theorem tie_simpleSubs : Gen.Progressions.simpleSubs = simpleSubs := by decide
theorem tie_substTable : Gen.Progressions.substTable = substTable := by decide
theorem tie_intervalFunc : Gen.Progressions.intervalFunc = intervalFunc := by decide
theorem tie_chordShorthand : Tie.C06.sameMap Gen.Chords.chordShorthand chordShorthand = true := Tie.C06.tie_chordShorthand
theorem tie_keys : Gen.Keys.keys = Keys.keys := by decide
end Mingus.Tie.C08
