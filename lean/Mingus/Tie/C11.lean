import Mingus.Gen.Note
import Mingus.Gen.Bar
import Mingus.Gen.Intervals
import Mingus.Model.Containers
/- Tie A for C11: the source of Note.transpose's octave fix-up and of the per-note loops of NoteContainer / Bar / Track,
   as mirrored by `Note.transpose`, `NC.transpose`, `Bar.mapContent`, `Track.mapBars`; the interval tables behind them. -/
namespace Mingus.Tie.C11
open Mingus
def nl : Str := [Char.ofNat 10]
theorem tie_transpose : Gen.Note.transposeSource =
    [lit "old, o_octave = (self.name, self.octave)", lit "self.name = intervals.from_shorthand(self.name, interval, up)",
     lit "if up:" ++ nl ++ lit "    if self < Note(old, o_octave):" ++ nl ++ lit "        self.octave += 1" ++ nl ++
       lit "elif self > Note(old, o_octave):" ++ nl ++ lit "    self.octave -= 1"] := by decide
theorem tie_changeOctave : Gen.Note.changeOctaveSource =
    [lit "self.octave += diff", lit "if self.octave < 0:" ++ nl ++ lit "    self.octave = 0"] := by decide
theorem tie_barLift : Gen.Bar.liftSource =
    [lit "for cont in self.bar:" ++ nl ++ lit "    if self._is_note(cont[2]):" ++ nl ++ lit "        cont[2].augment()",
     lit "for cont in self.bar:" ++ nl ++ lit "    if self._is_note(cont[2]):" ++ nl ++ lit "        cont[2].diminish()",
     lit "for cont in self.bar:" ++ nl ++ lit "    if self._is_note(cont[2]):" ++ nl ++ lit "        cont[2].transpose(interval, up)"] := by
  decide
theorem tie_trackLift : Gen.Bar.trackLiftSource =
    [lit "for bar in self.bars:" ++ nl ++ lit "    bar.transpose(interval, up)", lit "return self",
     lit "for bar in self.bars:" ++ nl ++ lit "    bar.augment()", lit "return self",
     lit "for bar in self.bars:" ++ nl ++ lit "    bar.diminish()", lit "return self"] := by decide
theorem tie_ncLift : Gen.Bar.ncLiftSource =
    [lit "for n in self.notes:" ++ nl ++ lit "    n.augment()", lit "for n in self.notes:" ++ nl ++ lit "    n.diminish()",
     lit "for n in self.notes:" ++ nl ++ lit "    n.transpose(interval, up)", lit "return self"] := by decide
theorem tie_shorthandLookup : Gen.Intervals.shorthandLookup = Intervals.shorthandLookup := by decide
theorem tie_ctorTable : Gen.Intervals.ctorTable = Intervals.ctorTable := by decide
end Mingus.Tie.C11
