import Mingus.Gen.Classes
import Mingus.Model.Alias
/- Tie A for C15 (static): for every class of the container and MIDI modules, every class-level list/dict that some method
   mutates in place is rebound by `__init__` (so instances own their object - the hypothesis of the instance theorems);
   the memoised theory functions return copies (the `fresh` flag of the memo machine); the fft shortcut tests its bound. -/
namespace Mingus.Tie.C15
open Mingus Mingus.Alias
theorem all_classes_safe : ∀ c ∈ Gen.Classes.classes, c.safe = true := by decide +kernel
theorem classes_covered : Gen.Classes.classes.map (·.name) =
    [lit "Note", lit "NoteContainer", lit "Bar", lit "Track", lit "Composition", lit "Suite", lit "Instrument", lit "Piano",
     lit "Guitar", lit "MidiInstrument", lit "MidiPercussionInstrument", lit "MidiFile", lit "MidiTrack", lit "Sequencer"] := by
  decide +kernel
theorem memo_returns_are_copies : Gen.Classes.memoReturns =
    [(lit "get_notes", [lit "list(result)", lit "list(_key_cache[key])"]),
     (lit "triads", [lit "[list(x) for x in _triads_cache[key]]"]),
     (lit "sevenths", [lit "[list(x) for x in _sevenths_cache[key]]"])] := by decide +kernel
theorem fft_shortcut_guarded : Gen.Classes.fftShortcutTests =
    [lit "f <= _log_cache[lastn]", lit "lastn + 1 < len(_log_cache) and f <= _log_cache[lastn + 1]"] := by decide +kernel
/-- no function or method of the library has a list / dict / set as a default argument value -/
theorem no_mutable_defaults : Gen.Classes.mutableDefaults = [] := by decide
end Mingus.Tie.C15
