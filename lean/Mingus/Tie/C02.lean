import Mingus.Gen.Intervals
import Mingus.Model.Intervals
/- Tie A for C02: the constructor rows translated from mingus/core/intervals.py equal the model's. -/
namespace Mingus.Tie.C02
open Mingus
theorem tie_degreeFns : Gen.Intervals.degreeFns = Intervals.degreeFns := by decide
theorem tie_ctorTable : Gen.Intervals.ctorTable = Intervals.ctorTable := by decide
theorem tie_aliasTable : Gen.Intervals.aliasTable = Intervals.aliasTable := by decide
theorem tie_unisons : Gen.Intervals.unisonBodies =
    [(lit "minor_unison", lit "notes.diminish(note)"), (lit "major_unison", lit "note"),
     (lit "augmented_unison", lit "notes.augment(note)")] := by decide
end Mingus.Tie.C02
