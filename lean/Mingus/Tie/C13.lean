import Mingus.Gen.Bar
import Mingus.Model.Containers
/- Tie A for C13: the float expressions of Bar's accounting, as mirrored by the IEEE-exact model
   (`place`: current + 1/v <= length or length = 0; `remove_last`: current -= 1/v; `is_full` tolerance; `space_left`). -/
namespace Mingus.Tie.C13
open Mingus
theorem tie_acceptCondition : Gen.Bar.acceptCondition =
    [lit "self.current_beat + 1.0 / duration <= self.length or self.length == 0.0"] := by decide
theorem tie_acceptBody : Gen.Bar.acceptBody =
    [lit "self.bar.append([self.current_beat, duration, notes])", lit "self.current_beat += 1.0 / duration", lit "return True"] := by
  decide
theorem tie_tolerance : Gen.Bar.isFullTolerance = F64.milli := by decide +kernel
theorem tie_removeLast : Gen.Bar.removeLastSource =
    [lit "self.current_beat -= 1.0 / self.bar[-1][1]", lit "self.bar = self.bar[:-1]", lit "return self.current_beat"] := by decide
theorem tie_spaceLeft : Gen.Bar.spaceLeftSource = [lit "return self.length - self.current_beat"] := by decide
end Mingus.Tie.C13
