import Mingus.Gen.Chords
import Mingus.Gen.Intervals
import Mingus.Model.Chords
import Mingus.Tie.C06
/- Tie A for C07: the if/elif tables of the five recognisers and `int_desc`, translated from chords.py, equal the
   model's; the builder and meaning tables as in C06. -/
namespace Mingus.Tie.C07
open Mingus Mingus.Chords
theorem tie_triadTable : Gen.Chords.triadTable = triadTable := by decide
theorem tie_seventhTable : Gen.Chords.seventhTable = seventhTable := by decide
theorem tie_ext5Table : Gen.Chords.ext5Table = ext5Table := by decide
theorem tie_ext6Table : Gen.Chords.ext6Table = ext6Table := by decide
theorem tie_ext7Table : Gen.Chords.ext7Table = ext7Table := by decide
theorem tie_intDesc : Gen.Chords.intDesc = intDesc := by decide
theorem tie_chordShorthand : Tie.C06.sameMap Gen.Chords.chordShorthand chordShorthand = true := Tie.C06.tie_chordShorthand
theorem tie_chordMeaning : Tie.C06.sameMap Gen.Chords.chordMeaning chordMeaning = true := Tie.C06.tie_chordMeaning
theorem tie_fifthSteps : Gen.Intervals.fifthSteps = Intervals.fifthSteps := by decide
end Mingus.Tie.C07
