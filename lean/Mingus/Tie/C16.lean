import Mingus.Gen.Midi
import Mingus.Model.Midi
/- Tie A for C16: the MIDI writer's source, statement by statement, as the model reads it.  `Gen.Midi` is regenerated from
   /repo on every run; any change to a constant, a class default, or a statement of MidiTrack, MidiFile or the five
   write_* functions breaks one of these theorems, and the check then searches for a failing input.  The model
   (Model/Midi.lean) was written against exactly these statements; the correspondence (Tie B) compares its bytes with the
   real writer's on every generated file. -/
namespace Mingus.Tie.C16
open Mingus

def trackDefaultsExpected : List (List Char × List Char) :=
  [(lit "track_data", lit "b''"),
   (lit "delta_time", lit "b'\\x00'"),
   (lit "delay", lit "0"),
   (lit "bpm", lit "120"),
   (lit "change_instrument", lit "False"),
   (lit "instrument", lit "1")]

theorem tie_trackDefaults : Gen.Midi.trackDefaults = trackDefaultsExpected := rfl

def trackSourcesExpected : List (List Char × List (List Char)) :=
  [(lit "__init__", [lit "self.track_data = b''", lit "self.set_tempo(start_bpm)"]),
   (lit "end_of_track", [lit "return b'\\x00\\xff/\\x00'"]),
   (lit "play_Note", [lit "channel = note.channel", lit "velocity = note.velocity", lit "if self.change_instrument:\n    self.set_instrument(channel, self.instrument)\n    self.change_instrument = False\n    self.set_deltatime(0)", lit "assert 0 <= velocity <= 127", lit "self.track_data += self.note_on(channel, int(note) + 12, velocity)"]),
   (lit "play_NoteContainer", [lit "if len(notecontainer) <= 1:\n    [self.play_Note(x) for x in notecontainer]\nelse:\n    self.play_Note(notecontainer[0])\n    self.set_deltatime(0)\n    [self.play_Note(x) for x in notecontainer[1:]]"]),
   (lit "play_Bar", [lit "self.set_deltatime(self.delay)", lit "self.delay = 0", lit "self.set_meter(bar.meter)", lit "self.set_deltatime(0)", lit "self.set_key(bar.key)", lit "for x in bar:\n    tick = int(round(1.0 / x[1] * 288))\n    if x[2] is None or len(x[2]) == 0:\n        self.delay += tick\n    else:\n        self.set_deltatime(self.delay)\n        self.delay = 0\n        if hasattr(x[2], 'bpm'):\n            self.set_tempo(x[2].bpm)\n            self.set_deltatime(0)\n        self.play_NoteContainer(x[2])\n        self.set_deltatime(self.int_to_varbyte(tick))\n        self.stop_NoteContainer(x[2])"]),
   (lit "play_Track", [lit "if hasattr(track, 'name'):\n    self.set_track_name(track.name)", lit "instr = track.instrument", lit "if hasattr(instr, 'instrument_nr'):\n    self.change_instrument = True\n    self.instrument = instr.instrument_nr", lit "for bar in track:\n    self.play_Bar(bar)"]),
   (lit "stop_Note", [lit "channel = note.channel", lit "velocity = note.velocity", lit "self.track_data += self.note_off(channel, int(note) + 12, velocity)"]),
   (lit "stop_NoteContainer", [lit "if len(notecontainer) <= 1:\n    [self.stop_Note(x) for x in notecontainer]\nelse:\n    self.stop_Note(notecontainer[0])\n    self.set_deltatime(0)\n    [self.stop_Note(x) for x in notecontainer[1:]]"]),
   (lit "set_instrument", [lit "self.track_data += self.select_bank(channel, bank)", lit "self.set_deltatime(0)", lit "self.track_data += self.program_change_event(channel, instr)"]),
   (lit "header", [lit "chunk_size = a2b_hex('%08x' % (len(self.track_data) + len(self.end_of_track())))", lit "return TRACK_HEADER + chunk_size"]),
   (lit "get_midi_data", [lit "return self.header() + self.track_data + self.end_of_track()"]),
   (lit "midi_event", [lit "assert 0 <= event_type < 16", lit "assert 0 <= channel < 16", lit "assert 0 <= param1 <= 127", lit "assert param2 is None or 0 <= param2 <= 127", lit "status_byte = channel | event_type << 4", lit "params = [param1]", lit "if param2 is not None:\n    params.append(param2)", lit "return self.delta_time + bytes([status_byte] + params)"]),
   (lit "note_off", [lit "return self.midi_event(NOTE_OFF, channel, note, velocity)"]),
   (lit "note_on", [lit "return self.midi_event(NOTE_ON, channel, note, velocity)"]),
   (lit "controller_event", [lit "return self.midi_event(CONTROLLER, channel, contr_nr, contr_val)"]),
   (lit "set_deltatime", [lit "if isinstance(delta_time, int):\n    delta_time = self.int_to_varbyte(delta_time)", lit "self.delta_time = delta_time"]),
   (lit "select_bank", [lit "return self.controller_event(channel, BANK_SELECT, bank)"]),
   (lit "program_change_event", [lit "return self.midi_event(PROGRAM_CHANGE, channel, instr)"]),
   (lit "set_tempo", [lit "self.bpm = bpm", lit "self.track_data += self.set_tempo_event(self.bpm)"]),
   (lit "set_tempo_event", [lit "ms_per_min = 60000000", lit "mpqn = a2b_hex('%06x' % (ms_per_min // bpm))", lit "return self.delta_time + META_EVENT + SET_TEMPO + b'\\x03' + mpqn"]),
   (lit "set_meter", [lit "self.track_data += self.time_signature_event(meter)"]),
   (lit "time_signature_event", [lit "numer = a2b_hex('%02x' % meter[0])", lit "denom = a2b_hex('%02x' % int(log(meter[1], 2)))", lit "return self.delta_time + META_EVENT + TIME_SIGNATURE + b'\\x04' + numer + denom + b'\\x18\\x08'"]),
   (lit "set_key", [lit "if isinstance(key, Key):\n    key = key.key", lit "self.track_data += self.key_signature_event(key)"]),
   (lit "key_signature_event", [lit "if str(key).islower():\n    val = minor_keys.index(key) - 7\n    mode = b'\\x01'\nelse:\n    val = major_keys.index(key) - 7\n    mode = b'\\x00'", lit "if val < 0:\n    val = 256 + val", lit "key = a2b_hex('%02x' % val)", lit "return self.delta_time + META_EVENT + KEY_SIGNATURE + b'\\x02' + key + mode"]),
   (lit "set_track_name", [lit "self.track_data += self.track_name_event(name)"]),
   (lit "track_name_event", [lit "l = self.int_to_varbyte(len(name))", lit "return b'\\x00' + META_EVENT + TRACK_NAME + l + name.encode('ascii')"]),
   (lit "int_to_varbyte", [lit "length = int(log(max(value, 1), 128)) + 1", lit "bytes = [value >> i * 7 & 127 for i in range(length)]", lit "bytes.reverse()", lit "for i in range(len(bytes) - 1):\n    bytes[i] = bytes[i] | 128", lit "return pack('%sB' % len(bytes), *bytes)"])]

theorem tie_trackSources : Gen.Midi.trackSources = trackSourcesExpected := rfl

def fileDefaultsExpected : List (List Char × List Char) :=
  [(lit "tracks", lit "[]"),
   (lit "time_division", lit "b'\\x00H'")]

theorem tie_fileDefaults : Gen.Midi.fileDefaults = fileDefaultsExpected := rfl

def fileSourcesExpected : List (List Char × List (List Char)) :=
  [(lit "__init__", [lit "if tracks is None:\n    tracks = []", lit "self.reset()", lit "self.tracks = tracks"]),
   (lit "get_midi_data", [lit "tracks = [t.get_midi_data() for t in self.tracks if t.track_data != b'']", lit "return self.header() + b''.join(tracks)"]),
   (lit "header", [lit "tracks = a2b_hex('%04x' % len([t for t in self.tracks if t.track_data != '']))", lit "return b'MThd\\x00\\x00\\x00\\x06\\x00\\x01' + tracks + self.time_division"]),
   (lit "reset", [lit "[t.reset() for t in self.tracks]"])]

theorem tie_fileSources : Gen.Midi.fileSources = fileSourcesExpected := rfl

def writerSourcesExpected : List (List Char × List (List Char)) :=
  [(lit "write_Note(file, note, bpm=120, repeat=0, verbose=False)", [lit "m = MidiFile()", lit "t = MidiTrack(bpm)", lit "m.tracks = [t]", lit "while repeat >= 0:\n    t.set_deltatime(b'\\x00')\n    t.play_Note(note)\n    t.set_deltatime(b'H')\n    t.stop_Note(note)\n    repeat -= 1", lit "return m.write_file(file, verbose)"]),
   (lit "write_NoteContainer(file, notecontainer, bpm=120, repeat=0, verbose=False)", [lit "m = MidiFile()", lit "t = MidiTrack(bpm)", lit "m.tracks = [t]", lit "while repeat >= 0:\n    t.set_deltatime(b'\\x00')\n    t.play_NoteContainer(notecontainer)\n    t.set_deltatime(b'H')\n    t.stop_NoteContainer(notecontainer)\n    repeat -= 1", lit "return m.write_file(file, verbose)"]),
   (lit "write_Bar(file, bar, bpm=120, repeat=0, verbose=False)", [lit "m = MidiFile()", lit "t = MidiTrack(bpm)", lit "m.tracks = [t]", lit "while repeat >= 0:\n    t.play_Bar(bar)\n    repeat -= 1", lit "return m.write_file(file, verbose)"]),
   (lit "write_Track(file, track, bpm=120, repeat=0, verbose=False)", [lit "m = MidiFile()", lit "t = MidiTrack(bpm)", lit "m.tracks = [t]", lit "while repeat >= 0:\n    t.play_Track(track)\n    repeat -= 1", lit "return m.write_file(file, verbose)"]),
   (lit "write_Composition(file, composition, bpm=120, repeat=0, verbose=False)", [lit "m = MidiFile()", lit "t = []", lit "for x in range(len(composition.tracks)):\n    t += [MidiTrack(bpm)]", lit "m.tracks = t", lit "while repeat >= 0:\n    for i in range(len(composition.tracks)):\n        m.tracks[i].play_Track(composition.tracks[i])\n    repeat -= 1", lit "return m.write_file(file, verbose)"])]

theorem tie_writerSources : Gen.Midi.writerSources = writerSourcesExpected := rfl

/-- the constants the model's events are built from -/
theorem tie_consts :
    [lit "NOTE_OFF", lit "NOTE_ON", lit "CONTROLLER", lit "PROGRAM_CHANGE", lit "BANK_SELECT"].map (Gen.Midi.intConsts.lookup ·)
      = [some 8, some 9, some 11, some 12, some 0] ∧
    [lit "FILE_HEADER", lit "TRACK_HEADER", lit "META_EVENT", lit "TRACK_NAME", lit "END_OF_TRACK", lit "SET_TEMPO",
     lit "TIME_SIGNATURE", lit "KEY_SIGNATURE"].map (Gen.Midi.byteConsts.lookup ·)
      = [some [77, 84, 104, 100], some [77, 84, 114, 107], some [255], some [3], some [47], some [81], some [88], some [89]] := by
  decide +kernel

/-- … and the model's bytes for one of each kind of event agree with those constants -/
theorem tie_model_events :
    (Midi.Ev.chan2 9 3 60 64).bytes = [9 * 16 + 3, 60, 64] ∧ (Midi.Ev.chan2 8 3 60 64).bytes = [8 * 16 + 3, 60, 64] ∧
    (Midi.Ev.chan2 11 3 0 1).bytes = [11 * 16 + 3, 0, 1] ∧ (Midi.Ev.chan1 12 3 42).bytes = [12 * 16 + 3, 42] ∧
    (Midi.Ev.metaE 81 [7, 161, 32]).bytes = [255, 81, 3, 7, 161, 32] ∧
    (Midi.MT.chunk {}).take 4 = [77, 84, 114, 107] ∧ (Midi.MT.chunk {}).drop 8 = [0, 255, 47, 0] ∧
    (Midi.fileBytes []) = [77, 84, 104, 100, 0, 0, 0, 6, 0, 1, 0, 0, 0, 72] := by
  decide +kernel

end Mingus.Tie.C16
