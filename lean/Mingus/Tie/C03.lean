import Mingus.Gen.Intervals
import Mingus.Gen.Notes
import Mingus.Model.Intervals
/- Tie A for C03: the tables of `determine` and `from_shorthand` translated from the source. -/
namespace Mingus.Tie.C03
open Mingus
theorem tie_fifthSteps : Gen.Intervals.fifthSteps = Intervals.fifthSteps := by decide
theorem tie_shorthandLookup : Gen.Intervals.shorthandLookup = Intervals.shorthandLookup := by decide
theorem tie_fifths : Gen.Notes.fifths = Notes.fifths := by decide
theorem tie_ctorTable : Gen.Intervals.ctorTable = Intervals.ctorTable := by decide
theorem tie_aliasTable : Gen.Intervals.aliasTable = Intervals.aliasTable := by decide
end Mingus.Tie.C03
