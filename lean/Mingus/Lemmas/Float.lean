import Mingus.Model.Float
import Mathlib.Algebra.Order.Field.Rat
import Mathlib.Tactic.Linarith
import Mathlib.Tactic.Positivity
import Mathlib.Tactic.FieldSimp
import Mathlib.Algebra.Order.Floor.Ring
import Mathlib.Data.Rat.Floor
import Mathlib.Tactic.Ring
/-
  Facts about the IEEE-754 model `F64.round`: rounding never turns a non-zero rational into zero (within the normal
  range, which is all the model represents), so `x / y` in double arithmetic is zero exactly when `x` is.
-/
namespace Mingus.F64

theorem pow2_pos (i : Int) : 0 < pow2 i := by
  unfold pow2
  split <;> positivity

theorem pow2_eq_zpow (i : Int) : pow2 i = (2 : Rat) ^ i := by
  unfold pow2
  split
  · rename_i h
    have : i = (i.toNat : Int) := by omega
    conv => rhs; rw [this]
    rw [zpow_natCast]
  · rename_i h
    have : i = -((-i).toNat : Int) := by omega
    conv => rhs; rw [this]
    rw [zpow_neg, zpow_natCast, one_div]

theorem pow2_mono {i j : Int} (h : i ≤ j) : pow2 i ≤ pow2 j := by
  rw [pow2_eq_zpow, pow2_eq_zpow]
  exact zpow_le_zpow_right₀ (by norm_num) h

/-- the exponent found is never too large: 2^(ilog2 a) ≤ a -/
theorem pow2_ilog2_le (a : Rat) (ha : 0 < a) : pow2 (ilog2 a) ≤ a := by
  unfold ilog2
  simp only
  split
  · split
    · assumption
    · assumption
  · -- 2^(l1 - l2 - 1) ≤ num / den from 2^l1 ≤ num and den < 2^(l2+1)
    have hnum : 0 < a.num := Rat.num_pos.2 ha
    have hn0 : a.num.natAbs ≠ 0 := by omega
    have hd0 : a.den ≠ 0 := a.den_ne_zero
    have h1 : 2 ^ a.num.natAbs.log2 ≤ a.num.natAbs := Nat.log2_self_le hn0
    have h2 : a.den < 2 ^ (a.den.log2 + 1) := Nat.lt_log2_self
    rw [pow2_eq_zpow]
    have hsub : ((a.num.natAbs.log2 : Int) - (a.den.log2 : Int) - 1) = (a.num.natAbs.log2 : Int) - ((a.den.log2 + 1 : Nat) : Int) := by
      push_cast; ring
    rw [hsub, zpow_sub₀ (by norm_num : (2 : Rat) ≠ 0), zpow_natCast, zpow_natCast]
    have hden_pos : (0 : Rat) < a.den := by exact_mod_cast a.den_pos
    have hp : (0 : Rat) < 2 ^ (a.den.log2 + 1) := by positivity
    have hnumc : ((2 : Rat) ^ a.num.natAbs.log2) ≤ (a.num : Rat) := by
      have : ((2 ^ a.num.natAbs.log2 : Nat) : Rat) ≤ ((a.num.natAbs : Nat) : Rat) := by exact_mod_cast h1
      have hcast : ((a.num.natAbs : Nat) : Rat) = (a.num : Rat) := by
        have h3 : ((a.num.natAbs : Nat) : Int) = a.num := by omega
        have h4 : (((a.num.natAbs : Nat) : Int) : Rat) = (a.num : Rat) := by rw [h3]
        simpa using h4
      rw [hcast] at this
      simpa using this
    have hdenc : (a.den : Rat) ≤ 2 ^ (a.den.log2 + 1) := by
      have : ((a.den : Nat) : Rat) ≤ ((2 ^ (a.den.log2 + 1) : Nat) : Rat) := by exact_mod_cast h2.le
      simpa using this
    have hnn : (0 : Rat) ≤ (a.num : Rat) := by exact_mod_cast hnum.le
    have key : (2 : Rat) ^ a.num.natAbs.log2 / 2 ^ (a.den.log2 + 1) ≤ (a.num : Rat) / (a.den : Rat) := by
      rw [div_le_div_iff₀ hp hden_pos]
      calc (2 : Rat) ^ a.num.natAbs.log2 * a.den ≤ a.num * a.den := by
            exact mul_le_mul_of_nonneg_right hnumc hden_pos.le
        _ ≤ a.num * 2 ^ (a.den.log2 + 1) := by
            exact mul_le_mul_of_nonneg_left hdenc hnn
    calc (2 : Rat) ^ a.num.natAbs.log2 / 2 ^ (a.den.log2 + 1) ≤ (a.num : Rat) / (a.den : Rat) := key
      _ = a := Rat.num_div_den a

/-- rounding to a double never yields zero from a non-zero rational -/
theorem round_ne_zero (q : Rat) (hq : q ≠ 0) : round q ≠ 0 := by
  unfold round
  simp only [hq, if_false]
  set a := if q < 0 then -q else q with ha
  have hapos : 0 < a := by
    rw [ha]; split
    · linarith
    · rename_i h; exact lt_of_le_of_ne (not_lt.1 h) (Ne.symm hq)
  set e := ilog2 a with he
  have hp := pow2_pos (e - 52)
  have hmant : 1 ≤ a / pow2 (e - 52) := by
    rw [le_div_iff₀ hp, one_mul]
    exact le_trans (pow2_mono (by omega)) (pow2_ilog2_le a hapos)
  have hfl : (1 : Int) ≤ (a / pow2 (e - 52)).floor := by
    have : (1 : Int) ≤ ⌊a / pow2 (e - 52)⌋ := Int.le_floor.2 (by exact_mod_cast hmant)
    exact this
  have hr : ∀ r : Int, 1 ≤ r → ((r : Rat) * pow2 (e - 52)) ≠ 0 := by
    intro r hr
    have : (0 : Rat) < (r : Rat) := by exact_mod_cast (by omega : (0 : Int) < r)
    exact (mul_pos this hp).ne'
  have hge : ∀ (x : Rat), (1 : Int) ≤ (if x - (x.floor : Rat) > 1 / 2 then x.floor + 1 else if x - (x.floor : Rat) < 1 / 2 then x.floor else
      (if x.floor % 2 = 0 then x.floor else x.floor + 1)) → True := fun _ _ => trivial
  have hrr : (1 : Int) ≤ (if a / pow2 (e - 52) - ((a / pow2 (e - 52)).floor : Rat) > 1 / 2 then (a / pow2 (e - 52)).floor + 1
      else if a / pow2 (e - 52) - ((a / pow2 (e - 52)).floor : Rat) < 1 / 2 then (a / pow2 (e - 52)).floor
      else (if (a / pow2 (e - 52)).floor % 2 = 0 then (a / pow2 (e - 52)).floor else (a / pow2 (e - 52)).floor + 1)) := by
    split
    · omega
    · split
      · exact hfl
      · split <;> omega
  split
  · exact neg_ne_zero.2 (hr _ hrr)
  · exact hr _ hrr

theorem div_ne_zero (x y : Rat) (hx : x ≠ 0) (hy : y ≠ 0) : F64.div x y ≠ 0 := by
  unfold F64.div
  exact round_ne_zero _ (_root_.div_ne_zero hx hy)

theorem div_zero_left (y : Rat) : F64.div 0 y = 0 := by simp [F64.div, round]

/-! ### rounding is exact on representable numbers -/

theorem pow2_add (i j : Int) : pow2 (i + j) = pow2 i * pow2 j := by
  rw [pow2_eq_zpow, pow2_eq_zpow, pow2_eq_zpow, zpow_add₀ (by norm_num : (2 : Rat) ≠ 0)]

theorem pow2_lt_iff {i j : Int} : pow2 i < pow2 j ↔ i < j := by
  rw [pow2_eq_zpow, pow2_eq_zpow]
  exact zpow_lt_zpow_iff_right₀ (by norm_num)

theorem pow2_natCast (n : Nat) : pow2 (n : Int) = ((2 ^ n : Nat) : Rat) := by
  rw [pow2_eq_zpow, zpow_natCast]; push_cast; rfl

/-- a positive number `M·2^k` with `M < 2^53` is a double: rounding returns it unchanged -/
theorem round_exact_pos (M : Nat) (k : Int) (hM0 : 0 < M) (hM : M < 2 ^ 53) : round ((M : Rat) * pow2 k) = (M : Rat) * pow2 k := by
  have hMr : (0 : Rat) < (M : Rat) := by exact_mod_cast hM0
  have hq : (0 : Rat) < (M : Rat) * pow2 k := mul_pos hMr (pow2_pos k)
  unfold round
  have hne : ¬ ((M : Rat) * pow2 k = 0) := hq.ne'
  have hnl : ¬ ((M : Rat) * pow2 k < 0) := not_lt.2 hq.le
  simp only [hne, hnl, if_false]
  set a := (M : Rat) * pow2 k with ha
  set e := ilog2 a with he
  -- e - 52 ≤ k
  have hle : pow2 e ≤ a := pow2_ilog2_le a hq
  have hlt : a < pow2 (53 + k) := by
    rw [pow2_add, ha]
    have : (M : Rat) < pow2 53 := by
      have h53 : pow2 53 = ((2 ^ 53 : Nat) : Rat) := pow2_natCast 53
      rw [h53]; exact_mod_cast hM
    exact mul_lt_mul_of_pos_right this (pow2_pos k)
  have hek : e < 53 + k := pow2_lt_iff.1 (lt_of_le_of_lt hle hlt)
  obtain ⟨n, hn⟩ : ∃ n : Nat, (n : Int) = k - (e - 52) := ⟨(k - (e - 52)).toNat, by omega⟩
  have hsplit : pow2 k = pow2 (e - 52) * pow2 (n : Int) := by
    rw [← pow2_add]; congr 1; omega
  have hp := pow2_pos (e - 52)
  have hmant : a / pow2 (e - 52) = (((M * 2 ^ n : Nat) : Int) : Rat) := by
    rw [ha, hsplit, pow2_natCast]
    field_simp
    push_cast
    ring
  have hfl : (a / pow2 (e - 52)).floor = ((M * 2 ^ n : Nat) : Int) := by
    show ⌊a / pow2 (e - 52)⌋ = _
    rw [hmant]
    exact Int.floor_intCast _
  rw [hfl]
  have hfrac : a / pow2 (e - 52) - ((((M * 2 ^ n : Nat) : Int)) : Rat) = 0 := by rw [hmant]; ring
  rw [hfrac]
  have h1 : ¬ ((0 : Rat) > 1 / 2) := by norm_num
  have h2 : (0 : Rat) < 1 / 2 := by norm_num
  simp only [h1, h2, if_false, if_true]
  rw [← hmant]
  field_simp

/-- every `m·2^k` with `|m| < 2^53` is a double -/
theorem round_exact (m : Int) (k : Int) (hm : m.natAbs < 2 ^ 53) : round ((m : Rat) * pow2 k) = (m : Rat) * pow2 k := by
  rcases lt_trichotomy m 0 with hneg | hz | hpos
  · -- negative: round is odd
    have hM0 : 0 < m.natAbs := by omega
    have hpos := round_exact_pos m.natAbs k hM0 hm
    have hcast : (m : Rat) = -((m.natAbs : Nat) : Rat) := by
      have h : m = -((m.natAbs : Nat) : Int) := by omega
      calc (m : Rat) = ((-((m.natAbs : Nat) : Int) : Int) : Rat) := by rw [← h]
        _ = -((m.natAbs : Nat) : Rat) := by rw [Int.cast_neg, Int.cast_natCast]
    have hq : (m : Rat) * pow2 k < 0 := by
      rw [hcast]
      have : (0 : Rat) < ((m.natAbs : Nat) : Rat) * pow2 k := mul_pos (by exact_mod_cast hM0) (pow2_pos k)
      linarith
    have hne : ¬ ((m : Rat) * pow2 k = 0) := hq.ne
    have hneg' : -((m : Rat) * pow2 k) = ((m.natAbs : Nat) : Rat) * pow2 k := by rw [hcast]; ring
    -- unfold both and compare
    unfold round at hpos ⊢
    have hne2 : ¬ (((m.natAbs : Nat) : Rat) * pow2 k = 0) := by rw [← hneg']; intro h; apply hne; linarith
    have hnl2 : ¬ (((m.natAbs : Nat) : Rat) * pow2 k < 0) := by rw [← hneg']; linarith
    simp only [hne2, hnl2, if_false] at hpos
    simp only [hne, hq, if_true, if_false, hneg']
    rw [hpos, ← hneg']; ring
  · subst hz; simp [round]
  · have hM0 : 0 < m.natAbs := by omega
    have := round_exact_pos m.natAbs k hM0 hm
    have hcast : (m : Rat) = ((m.natAbs : Nat) : Rat) := by
      have h : m = ((m.natAbs : Nat) : Int) := by omega
      calc (m : Rat) = ((((m.natAbs : Nat) : Int) : Int) : Rat) := by rw [← h]
        _ = ((m.natAbs : Nat) : Rat) := by rw [Int.cast_natCast]
    rw [hcast]; exact this

end Mingus.F64
