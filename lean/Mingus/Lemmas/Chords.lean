import Mingus.Lemmas.Scales
import Mingus.Model.Chords
/- Helper lemmas for the chords model. -/
namespace Mingus.Chords
open Mingus Mingus.Notes Mingus.Keys Mingus.Intervals Mingus.Scales

/-- (letters up, semitones up) of a named interval constructor, read off the same tables `ctorByName` uses -/
def ctorInfo (name : Str) : Option (Nat × Int) :=
  let name := (aliasTable.lookup name).getD name
  if name = lit "minor_unison" then some (0, -1)
  else if name = lit "major_unison" then some (0, 0)
  else if name = lit "augmented_unison" then some (0, 1)
  else (ctorTable.find? (fun r => r.1 == name)).map (fun r => (r.2.1, r.2.2))

theorem letterUp_zero {l : Char} (h : isLetter l = true) : letterUp l 0 = l := by
  rcases letter_cases h with e | e | e | e | e | e | e <;> subst e <;> decide

theorem good_head {n : Str} {l : Char} {p : Int} (h : Good n l p) : ∃ t, n = l :: t := by
  obtain ⟨hv, hh, _⟩ := h
  cases n with
  | nil => simp [valid] at hv
  | cons c t => simp at hh; exact ⟨t, by rw [hh]⟩

theorem good_letter {n : Str} {l : Char} {p : Int} (h : Good n l p) : isLetter l = true := by
  obtain ⟨t, e⟩ := good_head h
  have := h.1; rw [e] at this
  simp only [valid, Bool.and_eq_true] at this; exact this.1

theorem augment_good {n : Str} {l : Char} {p : Int} (h : Good n l p) : Good (augment n) l ((p + 1) % 12) := by
  obtain ⟨t, e⟩ := good_head h
  subst e
  have := Props.C01.augment_spec l t h.1
  exact ⟨this.1, this.2.1, by rw [this.2.2, h.2.2]⟩

theorem diminish_good {n : Str} {l : Char} {p : Int} (h : Good n l p) : Good (diminish n) l ((p - 1) % 12) := by
  obtain ⟨t, e⟩ := good_head h
  subst e
  have := Props.C01.diminish_spec l t h.1
  exact ⟨this.1, this.2.1, by rw [this.2.2, h.2.2]⟩

theorem ctorByName_good (name : Str) (d : Nat) (sm : Int) (hi : ctorInfo name = some (d, sm))
    {n : Str} {l : Char} {p : Int} (h : Good n l p) :
    ∃ r, ctorByName name n = some (.ok r) ∧ Good r (letterUp l d) ((p + sm) % 12) := by
  have hl := good_letter h
  have hp : 0 ≤ p ∧ p < 12 := by rw [← h.2.2]; exact pc_range n
  have hne : n ≠ [] := by obtain ⟨t, e⟩ := good_head h; rw [e]; simp
  unfold ctorInfo at hi
  unfold ctorByName
  simp only at hi ⊢
  split at hi
  · rename_i h1; simp only [Option.some.injEq, Prod.mk.injEq] at hi
    rw [if_pos h1, ← hi.1, ← hi.2, letterUp_zero hl]
    exact ⟨diminish n, by simp [minorUnison, diminishE, hne], by
      have := diminish_good h; rwa [show (p + -1) % 12 = (p - 1) % 12 by omega]⟩
  · rename_i h1
    split at hi
    · rename_i h2; simp only [Option.some.injEq, Prod.mk.injEq] at hi
      rw [if_neg h1, if_pos h2, ← hi.1, ← hi.2, letterUp_zero hl]
      exact ⟨n, rfl, ⟨h.1, h.2.1, by rw [h.2.2]; omega⟩⟩
    · rename_i h2
      split at hi
      · rename_i h3; simp only [Option.some.injEq, Prod.mk.injEq] at hi
        rw [if_neg h1, if_neg h2, if_pos h3, ← hi.1, ← hi.2, letterUp_zero hl]
        exact ⟨augment n, by simp [augmentedUnison, augmentE, hne], augment_good h⟩
      · rename_i h3
        rw [if_neg h1, if_neg h2, if_neg h3]
        cases hf : ctorTable.find? (fun r => r.1 == (aliasTable.lookup name).getD name) with
        | none => simp [hf] at hi
        | some r =>
          obtain ⟨nm, st, sm'⟩ := r
          simp only [hf, Option.map_some, Option.some.injEq, Prod.mk.injEq] at hi
          have hmem := List.mem_of_find?_eq_some hf
          have hr := Props.C02.ctorTable_ranges _ hmem
          simp only at hr
          obtain ⟨r, h1', h2'⟩ := ctor_good st hr.2.1 sm' ⟨hr.2.2.1, hr.2.2.2⟩ h
          exact ⟨r, by simp [h1'], by rw [← hi.1, ← hi.2]; exact h2'⟩

/-- (letters up, semitones up) denoted by a note expression -/
def exprSpec : NoteExpr → Option (Nat × Int)
  | .root => some (0, 0)
  | .ctor name => ctorInfo name
  | .aug e => (exprSpec e).map fun r => (r.1, r.2 + 1)
  | .dim e => (exprSpec e).map fun r => (r.1, r.2 - 1)

theorem evalExpr_good (e : NoteExpr) (d : Nat) (sm : Int) (hs : exprSpec e = some (d, sm))
    {n : Str} {l : Char} {p : Int} (h : Good n l p) :
    ∃ r, evalExpr n e = .ok r ∧ Good r (letterUp l d) ((p + sm) % 12) := by
  have hp : 0 ≤ p ∧ p < 12 := by rw [← h.2.2]; exact pc_range n
  induction e generalizing d sm with
  | root =>
    simp only [exprSpec, Option.some.injEq, Prod.mk.injEq] at hs
    rw [← hs.1, ← hs.2, letterUp_zero (good_letter h)]
    exact ⟨n, rfl, h.1, h.2.1, by rw [h.2.2]; omega⟩
  | ctor name =>
    obtain ⟨r, h1, h2⟩ := ctorByName_good name d sm hs h
    exact ⟨r, by simp [evalExpr, h1], h2⟩
  | aug e ih =>
    cases he : exprSpec e with
    | none => simp [exprSpec, he] at hs
    | some r0 =>
      simp only [exprSpec, he, Option.map_some, Option.some.injEq, Prod.mk.injEq] at hs
      obtain ⟨r, h1, h2⟩ := ih r0.1 r0.2 (by simp [he])
      refine ⟨augment r, by simp [evalExpr, h1, Except.map], ?_⟩
      have := augment_good h2
      rw [← hs.1, ← hs.2]
      exact ⟨this.1, this.2.1, by rw [this.2.2]; omega⟩
  | dim e ih =>
    cases he : exprSpec e with
    | none => simp [exprSpec, he] at hs
    | some r0 =>
      simp only [exprSpec, he, Option.map_some, Option.some.injEq, Prod.mk.injEq] at hs
      obtain ⟨r, h1, h2⟩ := ih r0.1 r0.2 (by simp [he])
      refine ⟨diminish r, by simp [evalExpr, h1, Except.map], ?_⟩
      have := diminish_good h2
      rw [← hs.1, ← hs.2]
      exact ⟨this.1, this.2.1, by rw [this.2.2]; omega⟩

/-- note i is a valid name on letter `l + dᵢ` with pitch class `p + sᵢ` -/
def MatchSpec (l : Char) (p : Int) : List Str → List (Nat × Int) → Prop
  | [], [] => True
  | x :: xs, ds :: dss => Good x (letterUp l ds.1) ((p + ds.2) % 12) ∧ MatchSpec l p xs dss
  | _, _ => False

/-- a whole builder: note i is on letter `root + dᵢ` at `sᵢ` semitones -/
theorem evalBuilder_good (es : List NoteExpr) (specs : List (Nat × Int)) (hs : es.map exprSpec = specs.map some)
    {n : Str} {l : Char} {p : Int} (h : Good n l p) :
    ∃ ns, evalBuilder es n = .ok ns ∧
      MatchSpec l p ns specs := by
  induction es generalizing specs with
  | nil =>
    cases specs with
    | nil => exact ⟨[], rfl, trivial⟩
    | cons a t => simp at hs
  | cons e es ih =>
    cases specs with
    | nil => simp at hs
    | cons a t =>
      simp only [List.map_cons, List.cons.injEq] at hs
      obtain ⟨r, h1, h2⟩ := evalExpr_good e a.1 a.2 hs.1 h
      obtain ⟨ns, h3, h4⟩ := ih t hs.2
      refine ⟨r :: ns, ?_, ⟨h2, h4⟩⟩
      simp only [evalBuilder] at h3
      simp only [evalBuilder, List.mapM_cons, h1, h3, bind, Except.bind, pure, Except.pure]

/-! ### string lemmas for the parser -/
theorem replaceGo_prefix (pat rep : Str) (p : Char) (pt : Str) (hpat : pat = p :: pt) (pre x : Str)
    (h : ∀ ch ∈ pre, ch ≠ p) : replaceGo pat rep 0 (pre ++ x) = pre ++ replaceGo pat rep 0 x := by
  induction pre with
  | nil => rfl
  | cons ch t ih =>
    have hne : ch ≠ p := h ch (by simp)
    have : pat.isPrefixOf (ch :: (t ++ x)) = false := by
      subst hpat; simp [List.isPrefixOf, Ne.symm hne]
    simp only [List.cons_append, replaceGo, this]
    simp only [Bool.false_eq_true, and_false, if_false]
    rw [ih (fun c hc => h c (by simp [hc]))]

theorem normalize_prefix (pre x : Str) (h : ∀ ch ∈ pre, ch ≠ 'm' ∧ ch ≠ '-') :
    normalize (pre ++ x) = pre ++ normalize x := by
  unfold normalize replaceAll
  rw [replaceGo_prefix (lit "min") _ 'm' _ rfl pre x (fun c hc => (h c hc).1),
      replaceGo_prefix (lit "mi") _ 'm' _ rfl pre _ (fun c hc => (h c hc).1),
      replaceGo_prefix (lit "-") _ '-' _ rfl pre _ (fun c hc => (h c hc).2),
      replaceGo_prefix (lit "maj") _ 'm' _ rfl pre _ (fun c hc => (h c hc).1),
      replaceGo_prefix (lit "ma") _ 'm' _ rfl pre _ (fun c hc => (h c hc).1)]

theorem root_chars (l : Char) (t : Str) (hv : valid (l :: t) = true) :
    ∀ ch ∈ l :: t, ch ≠ 'm' ∧ ch ≠ '-' ∧ ch ≠ '/' ∧ ch ≠ '|' := by
  simp only [valid, Bool.and_eq_true, List.all_eq_true] at hv
  intro ch hch
  simp at hch
  rcases hch with e | e
  · subst e
    rcases letter_cases hv.1 with e | e | e | e | e | e | e <;> subst e <;> decide
  · have := hv.2 ch e
    simp [isAcc] at this
    rcases this with e | e <;> subst e <;> decide

theorem takeWhile_acc (t k : Str) (ht : t.all isAcc = true) (hk : ∀ c, k.head? = some c → c ≠ '#' ∧ c ≠ 'b') :
    (t ++ k).takeWhile (fun ch => ch == '#' || ch == 'b') = t := by
  induction t with
  | nil =>
    cases k with
    | nil => rfl
    | cons c r =>
      have := hk c rfl
      simp [List.takeWhile_cons, this.1, this.2]
  | cons c r ih =>
    simp only [List.all_cons, Bool.and_eq_true] at ht
    have hc : (c == '#' || c == 'b') = true := by
      have := ht.1; simp [isAcc] at this; rcases this with e | e <;> simp [e]
    simp only [List.cons_append, List.takeWhile_cons, hc, if_true, ih ht.2]

theorem sepCount_append (a b : Str) : sepCount (a ++ b) = sepCount a + sepCount b := by
  simp [sepCount, List.count_append]; omega

theorem sepCount_root (l : Char) (t : Str) (hv : valid (l :: t) = true) : sepCount (l :: t) = 0 := by
  have h := root_chars l t hv
  simp only [sepCount]
  have h1 : (l :: t).count '/' = 0 := List.count_eq_zero.2 (fun hc => (h _ hc).2.2.1 rfl)
  have h2 : (l :: t).count '|' = 0 := List.count_eq_zero.2 (fun hc => (h _ hc).2.2.2 rfl)
  omega

end Mingus.Chords
