import Mingus.Lemmas.Intervals
import Mingus.Model.Scales
import Mingus.Props.C02
/- Helper lemmas for the scales model. -/
namespace Mingus.Scales
open Mingus Mingus.Notes Mingus.Keys Mingus.Intervals

/-- successive differences mod 12 of a list of pitch classes -/
def stepsP (q : List Int) : List Int := List.zipWith (fun a b => (b - a) % 12) q q.tail

@[simp] theorem stepsP_nil : stepsP [] = [] := rfl
@[simp] theorem stepsP_single (a : Int) : stepsP [a] = [] := rfl
@[simp] theorem stepsP_cons2 (a b : Int) (r : List Int) : stepsP (a :: b :: r) = (b - a) % 12 :: stepsP (b :: r) := rfl

theorem stepsP_append_cons (q : List Int) (hq : q ≠ []) (x : Int) (r : List Int) :
    stepsP (q ++ x :: r) = stepsP (q ++ [x]) ++ stepsP (x :: r) := by
  induction q with
  | nil => exact absurd rfl hq
  | cons a t ih =>
    cases t with
    | nil => simp
    | cons b t' =>
      have := ih (by simp)
      simp only [List.cons_append, stepsP_cons2] at this ⊢
      rw [this]

/-- cyclic step list of a one-octave list repeated: the pattern repeats `n` times -/
theorem steps_repeat (q0 : Int) (rest : List Int) (n : Nat) :
    stepsP ((List.replicate n (q0 :: rest)).flatten ++ [q0]) =
      (List.replicate n (stepsP ((q0 :: rest) ++ [q0]))).flatten := by
  induction n with
  | zero => simp
  | succ n ih =>
    have hstart : ∃ r, (List.replicate n (q0 :: rest)).flatten ++ [q0] = q0 :: r := by
      cases n with
      | zero => exact ⟨[], by simp⟩
      | succ m => exact ⟨rest ++ ((List.replicate m (q0 :: rest)).flatten ++ [q0]), by simp [List.replicate_succ]⟩
    obtain ⟨r, hr⟩ := hstart
    rw [List.replicate_succ, List.flatten_cons, List.append_assoc, hr,
      stepsP_append_cons _ (by simp), ← hr, ih, List.replicate_succ, List.flatten_cons]

/-- a valid name on letter `l` with pitch class `p` -/
def Good (n : Str) (l : Char) (p : Int) : Prop := valid n = true ∧ n.head? = some l ∧ pc n = p

theorem good_of_valid (l : Char) (t : Str) (h : valid (l :: t) = true) : Good (l :: t) l (pc (l :: t)) :=
  ⟨h, rfl, rfl⟩

/-- one loop-constructor step on a good name -/
theorem ctor_good (step : Nat) (hstep : step < 7) (sm : Int) (hs : 0 ≤ sm ∧ sm < 12) {n : Str} {l : Char} {p : Int}
    (h : Good n l p) : ∃ r, ctor step sm n = .ok r ∧ Good r (letterUp l step) ((p + sm) % 12) := by
  obtain ⟨hv, hh, hp⟩ := h
  cases n with
  | nil => simp [valid] at hv
  | cons c t =>
    simp at hh; subst hh
    obtain ⟨r, h1, h2, h3, h4, _⟩ := Props.C02.ctor_spec step hstep sm hs c t hv
    exact ⟨r, h1, h2, h3, by rw [h4, hp]⟩

def pcsFrom (p : Int) : List Int → List Int
  | [] => [p]
  | d :: ds => p :: pcsFrom ((p + d) % 12) ds

def lettersUp (l : Char) : Nat → List Char
  | 0 => [l]
  | k+1 => l :: lettersUp (letterUp l 1) k

/-- the generic "append f(last)" loop carries letter +1 and pitch class + d(i) per step -/
theorem grow_spec (f : Nat → Str → Except Err Str) (d : Nat → Int) (is : List Nat)
    (hf : ∀ i ∈ is, ∀ n l p, Good n l p → ∃ r, f i n = .ok r ∧ Good r (letterUp l 1) ((p + d i) % 12)) :
    ∀ (pre : List Str) (n : Str) (l : Char) (p : Int), Good n l p →
      ∃ ext, grow f is (pre ++ [n]) = .ok (pre ++ n :: ext) ∧
        (n :: ext).map pc = pcsFrom p (is.map d) ∧
        (n :: ext).map (fun x => x.headD ' ') = lettersUp l is.length ∧
        ∀ x ∈ ext, valid x = true := by
  induction is with
  | nil =>
    intro pre n l p h
    refine ⟨[], by simp [grow, pure, Except.pure], by simp [pcsFrom, h.2.2], ?_, by simp⟩
    have := h.2.1
    cases n with
    | nil => simp at this
    | cons c t => simp at this; simp [lettersUp, this]
  | cons i is ih =>
    intro pre n l p h
    obtain ⟨r, hr, hg⟩ := hf i (by simp) n l p h
    have ih' := ih (fun j hj => hf j (by simp [hj])) (pre ++ [n]) r _ _ hg
    obtain ⟨ext, h1, h2, h3, h4⟩ := ih'
    refine ⟨r :: ext, ?_, ?_, ?_, ?_⟩
    · simp only [grow, List.foldlM_cons, List.getLastD_eq_getLast?, List.getLast?_append, List.getLast?_singleton,
        Option.some_or, Option.getD_some, hr, bind, Except.bind, pure, Except.pure] at h1 ⊢
      simpa using h1
    · simp only [List.map_cons, pcsFrom] at h2 ⊢
      rw [h2, h.2.2]
    · have := h.2.1
      cases n with
      | nil => simp at this
      | cons c t =>
        simp at this
        simp only [List.map_cons, List.length_cons, lettersUp] at h3 ⊢
        rw [h3]; simp [this]
    · intro x hx
      simp at hx
      rcases hx with e | e
      · rw [e]; exact hg.1
      · exact h4 x e

theorem pcsFrom_length (p : Int) (ds : List Int) : (pcsFrom p ds).length = ds.length + 1 := by
  induction ds generalizing p with
  | nil => rfl
  | cons d ds ih => simp [pcsFrom, ih]

theorem pcsFrom_range (p : Int) (hp : 0 ≤ p ∧ p < 12) (ds : List Int) : ∀ x ∈ pcsFrom p ds, 0 ≤ x ∧ x < 12 := by
  induction ds generalizing p with
  | nil => intro x hx; simp [pcsFrom] at hx; omega
  | cons d ds ih =>
    intro x hx
    simp [pcsFrom] at hx
    rcases hx with e | e
    · omega
    · exact ih _ (by omega) x e

/-- steps of the running pitch classes closed by the start: the step list itself, then the complement -/
theorem stepsP_pcsFrom_closed (p : Int) (hp : 0 ≤ p ∧ p < 12) (ds : List Int) (q0 : Int) :
    stepsP (pcsFrom p ds ++ [q0]) = ds.map (· % 12) ++ [(q0 - (p + ds.sum)) % 12] := by
  induction ds generalizing p with
  | nil => simp [pcsFrom]
  | cons d ds ih =>
    have hne : ∃ a r, pcsFrom ((p + d) % 12) ds = a :: r ∧ a = (p + d) % 12 := by
      cases ds with
      | nil => exact ⟨_, [], rfl, rfl⟩
      | cons e es => exact ⟨_, _, rfl, rfl⟩
    obtain ⟨a, r, hr, ha⟩ := hne
    have := ih ((p + d) % 12) (by omega)
    simp only [pcsFrom, List.cons_append, hr, stepsP_cons2, List.map_cons, List.sum_cons] at this ⊢
    rw [this, ha]
    congr 1
    · omega
    · congr 2; omega

end Mingus.Scales
