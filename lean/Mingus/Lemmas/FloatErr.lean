import Mingus.Lemmas.Float
import Mathlib.Tactic.SplitIfs
import Mathlib.Tactic.NormNum
import Mathlib.Algebra.Order.AbsoluteValue.Basic
/-
  The error of one rounding in the IEEE model: `|round q − q| ≤ |q| · 2⁻⁵³` for EVERY rational `q` (the model has no
  overflow and no subnormals, so the bound is unconditional), rounding keeps the sign, and `round (−q) = − round q`.
-/
namespace Mingus.F64

/-- the unit roundoff of binary64 -/
def u : Rat := 1 / 2 ^ 53

theorem u_pos : 0 < u := by unfold u; positivity

theorem round_pos_eq (a : Rat) (ha : 0 < a) :
    ∃ r : Int, round a = (r : Rat) * pow2 (ilog2 a - 52) ∧ |(r : Rat) - a / pow2 (ilog2 a - 52)| ≤ 1 / 2 := by
  unfold round
  simp only [ha.ne', if_false, not_lt.2 ha.le]
  set m := a / pow2 (ilog2 a - 52) with hm
  have h1 : ((m.floor : Int) : Rat) ≤ m := Int.floor_le m
  have h2 : m < ((m.floor : Int) : Rat) + 1 := Int.lt_floor_add_one m
  split_ifs with c1 c2 c3
  · refine ⟨m.floor + 1, rfl, ?_⟩
    push_cast; rw [abs_le]; constructor <;> linarith
  · refine ⟨m.floor, rfl, ?_⟩
    rw [abs_le]; constructor <;> linarith
  · refine ⟨m.floor, rfl, ?_⟩
    rw [abs_le]; constructor <;> linarith
  · refine ⟨m.floor + 1, rfl, ?_⟩
    push_cast; rw [abs_le]; constructor <;> linarith

theorem pow2_neg53 : pow2 (-53) = u := by
  rw [pow2_eq_zpow]; unfold u; norm_num [zpow_neg]

/-- one rounding of a positive rational: relative error at most 2⁻⁵³ -/
theorem round_pos_err (a : Rat) (ha : 0 < a) : |round a - a| ≤ a * u := by
  obtain ⟨r, hr, hrm⟩ := round_pos_eq a ha
  have hP := pow2_pos (ilog2 a - 52)
  have hsplit : pow2 (ilog2 a - 52) = pow2 (ilog2 a) * (2 * u) := by
    have : ilog2 a - 52 = ilog2 a + (-52) := by ring
    rw [this, pow2_add]; congr 1; rw [pow2_eq_zpow]; unfold u; norm_num [zpow_neg]
  have hle := pow2_ilog2_le a ha
  have hrw : round a - a = ((r : Rat) - a / pow2 (ilog2 a - 52)) * pow2 (ilog2 a - 52) := by
    rw [hr]; field_simp
  rw [hrw, abs_mul, abs_of_pos hP]
  calc |(r : Rat) - a / pow2 (ilog2 a - 52)| * pow2 (ilog2 a - 52)
      ≤ (1 / 2) * pow2 (ilog2 a - 52) := mul_le_mul_of_nonneg_right hrm hP.le
    _ = pow2 (ilog2 a) * u := by rw [hsplit]; ring
    _ ≤ a * u := mul_le_mul_of_nonneg_right hle u_pos.le

theorem u_lt_one : u < 1 := by unfold u; norm_num

theorem round_pos (a : Rat) (ha : 0 < a) : 0 < round a := by
  have h := round_pos_err a ha
  rw [abs_le] at h
  have : a * u < a := by
    have := mul_lt_mul_of_pos_left u_lt_one ha; linarith
  linarith [h.1]

theorem round_neg (q : Rat) : round (-q) = - round q := by
  rcases lt_trichotomy q 0 with h | h | h
  · unfold round
    have h1 : ¬ (-q < 0) := by linarith
    have h2 : -q ≠ 0 := by intro h'; linarith
    simp only [h1, h2, h.ne, h, if_true, if_false, neg_neg]
  · subst h; simp [round]
  · unfold round
    have h1 : ¬ (q < 0) := by linarith
    have h2 : -q ≠ 0 := by intro h'; linarith
    have h3 : -q < 0 := by linarith
    simp only [h1, h2, h.ne', h3, if_true, if_false, neg_neg]

/-- **one rounding, any rational**: `|round q − q| ≤ |q| · 2⁻⁵³` -/
theorem round_err (q : Rat) : |round q - q| ≤ |q| * u := by
  rcases lt_trichotomy q 0 with h | h | h
  · have := round_pos_err (-q) (by linarith)
    rw [round_neg] at this
    rw [abs_of_neg h]
    have e : |round q - q| = |-round q - -q| := by rw [← abs_neg]; congr 1; ring
    rw [e]; exact this
  · subst h; simp [round]
  · rw [abs_of_pos h]; exact round_pos_err q h

end Mingus.F64
