import Mingus.Model.Notes
/- Helper lemmas about the notes model (core Lean only). -/
namespace Mingus.Notes

theorem accVal_foldl (s : Str) (a : Int) :
    s.foldl (fun v c => v + accOf c) a = a + accVal s := by
  induction s generalizing a with
  | nil => simp [accVal]
  | cons c t ih => simp only [List.foldl_cons, accVal]; rw [ih, ih (0 + accOf c)]; omega

@[simp] theorem accVal_nil : accVal [] = 0 := rfl
theorem accVal_cons (c : Char) (t : Str) : accVal (c :: t) = accOf c + accVal t := by
  simp only [accVal, List.foldl_cons]; rw [accVal_foldl]; simp [accVal]
theorem accVal_append (s t : Str) : accVal (s ++ t) = accVal s + accVal t := by
  simp only [accVal, List.foldl_append]; rw [accVal_foldl]; rfl
theorem accVal_rep_sharp (k : Nat) : accVal (List.replicate k '#') = k := by
  induction k with
  | zero => simp
  | succ k ih => rw [List.replicate_succ', accVal_append, ih]; simp [accVal, accOf]
theorem accVal_rep_flat (k : Nat) : accVal (List.replicate k 'b') = -(k:Int) := by
  induction k with
  | zero => simp
  | succ k ih => rw [List.replicate_succ', accVal_append, ih]; simp [accVal, accOf]; omega

/-- the net accidental value is sharps minus flats, whatever the order -/
theorem accVal_count (t : Str) : accVal t = (t.count '#' : Int) - (t.count 'b' : Int) := by
  induction t with
  | nil => simp
  | cons c t ih =>
    rw [accVal_cons, ih, List.count_cons, List.count_cons]
    unfold accOf
    by_cases h1 : c = '#'
    · subst h1; simp; omega
    · by_cases h2 : c = 'b'
      · subst h2; simp; omega
      · simp [h1, h2]

theorem letter_ne_b {l : Char} (h : isLetter l = true) : l ≠ 'b' := by
  intro e; subst e; revert h; decide
theorem letter_ne_sharp {l : Char} (h : isLetter l = true) : l ≠ '#' := by
  intro e; subst e; revert h; decide

/-- the seven letters, as a case split usable for any `l` with `isLetter l` -/
theorem letter_cases {l : Char} (h : isLetter l = true) :
    l = 'C' ∨ l = 'D' ∨ l = 'E' ∨ l = 'F' ∨ l = 'G' ∨ l = 'A' ∨ l = 'B' := by
  unfold isLetter natural? noteDict at h
  simp only [List.lookup] at h
  repeat' split at h
  all_goals first | (simp at h) | skip
  all_goals simp_all

theorem natural_range {l : Char} {v : Int} (h : natural? l = some v) : 0 ≤ v ∧ v < 12 := by
  have hl : isLetter l = true := by simp [isLetter, h]
  rcases letter_cases hl with e | e | e | e | e | e | e <;> subst e <;>
    (have : natural? _ = some _ := h; revert this; simp [natural?, noteDict, List.lookup]; omega)

theorem getLast_snoc (l : Char) (xs : Str) (a : Char) : (l :: (xs ++ [a])).getLast? = some a := by
  rw [show l :: (xs ++ [a]) = (l :: xs) ++ [a] by simp, List.getLast?_append]; simp
theorem dropLast_snoc (l : Char) (xs : Str) (a : Char) : (l :: (xs ++ [a])).dropLast = l :: xs := by
  rw [show l :: (xs ++ [a]) = (l :: xs) ++ [a] by simp, List.dropLast_concat]

theorem pc_rep (l : Char) (v : Int) : pc (rep l v) = ((natural? l).getD 0 + v) % 12 := by
  unfold rep pc
  by_cases h : v ≥ 0
  · simp only [h, if_true, accVal_rep_sharp]; congr 1; omega
  · simp only [h, if_false, accVal_rep_flat]; congr 1; omega

theorem augment_rep (l : Char) (hl : l ≠ 'b') (v : Int) : augment (rep l v) = rep l (v+1) := by
  unfold augment rep
  by_cases h : v ≥ 0
  · have h1 : v + 1 ≥ 0 := by omega
    simp only [h, h1, if_true]
    have hne : (l :: List.replicate v.toNat '#').getLast? ≠ some 'b' := by
      cases hk : v.toNat with
      | zero => simp [hl]
      | succ k => rw [List.replicate_succ', getLast_snoc]; simp
    rw [if_pos hne]
    have : (v+1).toNat = v.toNat + 1 := by omega
    rw [this, List.replicate_succ']; simp
  · have hv : (-v).toNat = ((-(v+1)).toNat) + 1 := by omega
    simp only [h, if_false]
    rw [hv, List.replicate_succ', getLast_snoc, if_neg (by simp), dropLast_snoc]
    by_cases h1 : v + 1 ≥ 0
    · have : v = -1 := by omega
      subst this; simp
    · simp [h1]

theorem diminish_rep (l : Char) (hl : l ≠ '#') (v : Int) : diminish (rep l v) = rep l (v-1) := by
  unfold diminish rep
  by_cases h : v ≥ 1
  · have h0 : v ≥ 0 := by omega
    have h1 : v - 1 ≥ 0 := by omega
    have hv : v.toNat = (v-1).toNat + 1 := by omega
    simp only [h0, h1, if_true]
    rw [hv, List.replicate_succ', getLast_snoc, if_neg (by simp), dropLast_snoc]
  · by_cases h0 : v = 0
    · subst h0; simp [hl]
    · have hneg : ¬ v ≥ 0 := by omega
      have hneg1 : ¬ v - 1 ≥ 0 := by omega
      simp only [hneg, hneg1, if_false]
      have hne : (l :: List.replicate (-v).toNat 'b').getLast? ≠ some '#' := by
        cases hk : (-v).toNat with
        | zero => simp [hl]
        | succ k => rw [List.replicate_succ', getLast_snoc]; simp
      rw [if_pos hne]
      have : (-(v-1)).toNat = (-v).toNat + 1 := by omega
      rw [this, List.replicate_succ']; simp

theorem iter_augment_rep (l : Char) (hl : l ≠ 'b') (k : Nat) (v : Int) :
    iter augment k (rep l v) = rep l (v + k) := by
  induction k generalizing v with
  | zero => simp [iter]
  | succ k ih => simp only [iter]; rw [augment_rep l hl, ih]; congr 1; omega

theorem iter_diminish_rep (l : Char) (hl : l ≠ '#') (k : Nat) (v : Int) :
    iter diminish k (rep l v) = rep l (v - k) := by
  induction k generalizing v with
  | zero => simp [iter]
  | succ k ih => simp only [iter]; rw [diminish_rep l hl, ih]; congr 1; omega

theorem rep_zero (l : Char) : rep l 0 = [l] := by simp [rep]

/-- the rebuild loop produces the canonical spelling -/
theorem rebuild_eq_rep (l : Char) (hb : l ≠ 'b') (hs : l ≠ '#') (v : Int) : rebuild l v = rep l v := by
  unfold rebuild
  by_cases h : v ≥ 0
  · rw [if_pos h, ← rep_zero l, iter_augment_rep l hb]; congr 1; omega
  · rw [if_neg h, ← rep_zero l, iter_diminish_rep l hs]; congr 1; omega

theorem valid_rep {l : Char} (hl : isLetter l = true) (v : Int) : valid (rep l v) = true := by
  unfold rep valid
  by_cases h : v ≥ 0 <;> simp [h, hl, isAcc]

theorem accVal_rep (l : Char) (v : Int) : accVal (rep l v).tail = v := by
  unfold rep
  by_cases h : v ≥ 0
  · simp [h, accVal_rep_sharp]; omega
  · simp [h, accVal_rep_flat]; omega

theorem all_isAcc_append (s t : Str) : (s ++ t).all isAcc = (s.all isAcc && t.all isAcc) := by
  simp [List.all_append]

end Mingus.Notes
