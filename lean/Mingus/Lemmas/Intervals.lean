import Mingus.Lemmas.Notes
import Mingus.Model.Intervals
/- Helper lemmas about the intervals model (core Lean only). -/
namespace Mingus.Intervals
open Mingus.Notes Mingus.Keys

theorem pc_range (n : Str) : 0 ≤ pc n ∧ pc n < 12 := by
  cases n with
  | nil => simp [pc]
  | cons l t => simp only [pc]; omega

theorem measureP_eq (a b : Str) : measureP a b = (pc b - pc a) % 12 := by
  have ha := pc_range a; have hb := pc_range b
  unfold measureP; simp only; split <;> omega

theorem measureP_range (a b : Str) : 0 ≤ measureP a b ∧ measureP a b < 12 := by
  rw [measureP_eq]; omega

theorem noteToInt_valid (n : Str) (h : valid n = true) : noteToInt n = .ok (pc n) := by
  cases n with
  | nil => simp [valid] at h
  | cons l t =>
    simp only [valid, Bool.and_eq_true, isLetter] at h
    obtain ⟨h1, h2⟩ := h
    cases hn : natural? l with
    | none => simp [hn] at h1
    | some v => simp [noteToInt, pc, hn, h2]

theorem measure_valid (a b : Str) (ha : valid a = true) (hb : valid b = true) :
    measure a b = .ok (measureP a b) := by
  simp [measure, noteToInt_valid a ha, noteToInt_valid b hb, bind, Except.bind, pure, Except.pure, measureP]

/-- closed form of the correction loop started from a canonical spelling -/
theorem fix_rep (l : Char) (hb : l ≠ 'b') (hs : l ≠ '#') (n1 : Str) (iv : Int) (hiv : 0 ≤ iv ∧ iv < 12) :
    ∀ (f : Nat) (v : Int), ((iv - measureP n1 (rep l v)).natAbs ≤ f) →
      fix f n1 (rep l v) iv = rep l (v + (iv - measureP n1 (rep l v))) := by
  intro f
  induction f with
  | zero =>
    intro v h
    have : iv - measureP n1 (rep l v) = 0 := by omega
    simp [fix, this]
  | succ f ih =>
    intro v h
    unfold fix
    simp only
    have hm := measureP_range n1 (rep l v)
    by_cases e : measureP n1 (rep l v) = iv
    · simp [e]
    · rw [if_neg e]
      by_cases g : measureP n1 (rep l v) > iv
      · rw [if_pos g, diminish_rep l hs]
        have hm' : measureP n1 (rep l (v-1)) = measureP n1 (rep l v) - 1 := by
          have hp := pc_rep l v; have hp' := pc_rep l (v-1)
          rw [measureP_eq, measureP_eq] at *; omega
        rw [ih (v-1) (by rw [hm']; omega), hm']; congr 1; omega
      · rw [if_neg g, augment_rep l hb]
        have hm' : measureP n1 (rep l (v+1)) = measureP n1 (rep l v) + 1 := by
          have hp := pc_rep l v; have hp' := pc_rep l (v+1)
          rw [measureP_eq, measureP_eq] at *; omega
        rw [ih (v+1) (by rw [hm']; omega), hm']; congr 1; omega

/-- the normalisation keeps the pitch class and brings -11..11 into -6..6 -/
theorem normAcc_spec (d : Int) (h : -12 < d ∧ d < 12) :
    -6 ≤ normAcc d ∧ normAcc d ≤ 6 ∧ (normAcc d - d) % 12 = 0 := by
  unfold normAcc pyModNeg12
  split
  · omega
  · split <;> omega

/-- letter `k` steps above `l` in C D E F G A B -/
def letterUp (l : Char) (k : Nat) : Char := baseScale.getD ((baseScale.idxOf l + k) % 7) 'C'

theorem letterUp_isLetter {l : Char} (h : isLetter l = true) (k : Nat) : isLetter (letterUp l k) = true := by
  have : ∀ i, i < 7 → isLetter (baseScale.getD i 'C') = true := by decide
  exact this _ (Nat.mod_lt _ (by decide))

/-- in the key of C the diatonic step lands on the natural letter -/
theorem interval_C (l : Char) (h : isLetter l = true) (k : Nat) (hk : k < 7) :
    interval (lit "C") [l] k = .ok [letterUp l k] := by
  have key : ∀ k ∈ List.range 7, ∀ l ∈ baseScale, interval (lit "C") [l] k = .ok [letterUp l k] := by
    decide +kernel
  have hl : l ∈ baseScale := by
    rcases letter_cases h with e | e | e | e | e | e | e <;> subst e <;> decide
  exact key k (List.mem_range.2 hk) l hl

theorem rep_shape (l : Char) (v : Int) :
    (rep l v).head? = some l ∧ (rep l v).tail.length = v.natAbs ∧
    ((rep l v).tail.all (· == '#') = true ∨ (rep l v).tail.all (· == 'b') = true) := by
  unfold rep
  by_cases h : v ≥ 0
  · simp [h]; omega
  · simp [h]; omega

/-- closed form of a loop constructor on a valid name -/
theorem ctor_closed (step : Nat) (hstep : step < 7) (semis : Int) (hs : 0 ≤ semis ∧ semis < 12)
    (l : Char) (t : Str) (hv : valid (l :: t) = true) :
    ctor step semis (l :: t) =
      .ok (rep (letterUp l step) (normAcc (semis - measureP (l :: t) [letterUp l step]))) := by
  have hl : isLetter l = true := by
    simp only [valid, Bool.and_eq_true] at hv; exact hv.1
  have hl' := letterUp_isLetter hl step
  have hv2 : valid [letterUp l step] = true := by simp [valid, hl']
  simp only [ctor, interval_C l hl step hstep, bind, Except.bind, augOrDim,
    noteToInt_valid _ hv2, noteToInt_valid _ hv]
  have hfix := fix_rep (letterUp l step) (letter_ne_b hl') (letter_ne_sharp hl') (l :: t) semis hs 12 0
  rw [rep_zero] at hfix
  have hm := measureP_range (l :: t) [letterUp l step]
  rw [hfix (by omega)]
  simp only [Int.zero_add]
  generalize hd : semis - measureP (l :: t) [letterUp l step] = d
  have hsplit : rep (letterUp l step) d = letterUp l step :: (rep (letterUp l step) d).tail := by
    simp [rep]
  rw [hsplit]
  simp only [pure, Except.pure, accVal_rep,
    rebuild_eq_rep _ (letter_ne_b hl') (letter_ne_sharp hl')]

end Mingus.Intervals
