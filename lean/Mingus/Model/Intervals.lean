import Mingus.Model.Keys
/- Model of mingus/core/intervals.py. -/
namespace Mingus.Intervals
open Mingus.Notes Mingus.Keys

local notation "s" => lit

/-- `interval(key, start_note, interval)` -/
def interval (key : Str) (start : Str) (iv : Nat) : Except Err Str :=
  match start with
  | [] => .error .index
  | l :: _ =>
    if !valid start then .error .key
    else do
      let ns ← getNotes key
      match ns.findIdx? (fun n => n.head? == some l) with
      | some i => pure (ns.getD ((i + iv) % 7) [])
      | none => throw .other

/-- `second` … `seventh` as (name, step) rows; `unison(note)` is `interval(note, note, 0)` -/
def degreeFns : List (Str × Nat) :=
  [(s "second", 1), (s "third", 2), (s "fourth", 3), (s "fifth", 4), (s "sixth", 5), (s "seventh", 6)]

/-- pure semitone measure (valid names) -/
def measureP (a b : Str) : Int :=
  let r := pc b - pc a
  if r < 0 then 12 - r * -1 else r

/-- `measure(note1, note2)`; Python evaluates `note_to_int(note2)` first -/
def measure (a b : Str) : Except Err Int := do
  let y ← noteToInt b
  let x ← noteToInt a
  let r := y - x
  pure (if r < 0 then 12 - r * -1 else r)

/-- the `while cur != interval` loop; measures stay in 0..11 so 12 rounds always suffice -/
def fix : Nat → Str → Str → Int → Str
  | 0, _, n2, _ => n2
  | f+1, n1, n2, iv =>
    let cur := measureP n1 n2
    if cur = iv then n2
    else if cur > iv then fix f n1 (diminish n2) iv
    else fix f n1 (augment n2) iv

/-- Python's `val % -12` (result takes the sign of the divisor) -/
def pyModNeg12 (v : Int) : Int := -((-v) % 12)

/-- the "too many #'s or b's" normalisation -/
def normAcc (val : Int) : Int :=
  if val > 6 then -12 + val % 12
  else if val < -6 then 12 + pyModNeg12 val
  else val

/-- `augment_or_diminish_until_the_interval_is_right` -/
def augOrDim (n1 n2 : Str) (iv : Int) : Except Err Str := do
  let _ ← noteToInt n2
  let _ ← noteToInt n1
  let r := fix 12 n1 n2 iv
  match r with
  | [] => throw .index
  | l :: t => pure (rebuild l (normAcc (accVal t)))

/-- the fourteen constructors built on the loop: (name, diatonic step, semitones) -/
def ctorTable : List (Str × Nat × Int) :=
  [(s "minor_second", 1, 1), (s "major_second", 1, 2), (s "minor_third", 2, 3), (s "major_third", 2, 4),
   (s "minor_fourth", 3, 4), (s "major_fourth", 3, 5), (s "minor_fifth", 4, 6), (s "major_fifth", 4, 7),
   (s "minor_sixth", 5, 8), (s "major_sixth", 5, 9), (s "minor_seventh", 6, 10), (s "major_seventh", 6, 11)]
/-- aliases `def perfect_fourth(note): return major_fourth(note)` -/
def aliasTable : List (Str × Str) :=
  [(s "perfect_fourth", s "major_fourth"), (s "perfect_fifth", s "major_fifth")]

def ctor (step : Nat) (semis : Int) (note : Str) : Except Err Str :=
  match note with
  | [] => .error .index
  | l :: _ => do
    let n2 ← interval (s "C") [l] step
    augOrDim note n2 semis

def minorUnison (n : Str) : Except Err Str := diminishE n
def majorUnison (n : Str) : Except Err Str := .ok n
def augmentedUnison (n : Str) : Except Err Str := augmentE n

def minorSecond := ctor 1 1
def majorSecond := ctor 1 2
def minorThird := ctor 2 3
def majorThird := ctor 2 4
def minorFourth := ctor 3 4
def majorFourth := ctor 3 5
def perfectFourth := majorFourth
def minorFifth := ctor 4 6
def majorFifth := ctor 4 7
def perfectFifth := majorFifth
def minorSixth := ctor 5 8
def majorSixth := ctor 5 9
def minorSeventh := ctor 6 10
def majorSeventh := ctor 6 11

/-- constructor by Python name -/
def ctorByName (name : Str) (n : Str) : Option (Except Err Str) :=
  let name := (aliasTable.lookup name).getD name
  if name = s "minor_unison" then some (minorUnison n)
  else if name = s "major_unison" then some (majorUnison n)
  else if name = s "augmented_unison" then some (augmentedUnison n)
  else match ctorTable.find? (fun r => r.1 == name) with
    | some (_, st, sm) => some (ctor st sm n)
    | none => none

/-- consonance predicates -/
def isPerfectConsonant (a b : Str) (fourths : Bool) : Except Err Bool := do
  let d ← measure a b
  pure (d == 0 || d == 7 || (fourths && d == 5))
def isImperfectConsonant (a b : Str) : Except Err Bool := do
  let d ← measure a b
  pure (d == 3 || d == 4 || d == 8 || d == 9)
def isConsonant (a b : Str) (fourths : Bool) : Except Err Bool := do
  let p ← isPerfectConsonant a b fourths
  if p then pure true else isImperfectConsonant a b
def isDissonant (a b : Str) (fourths : Bool) : Except Err Bool := do
  let c ← isConsonant a b (!fourths)
  pure (!c)

/-- `invert`: reverse in place, copy, reverse back — (returned list, argument afterwards) -/
def invert (l : List Str) : List Str × List Str :=
  let l1 := l.reverse
  let res := l1
  (res, l1.reverse)

/-- `fifth_steps` rows: (name, shorthand digit, semitones of the major/perfect size) -/
def fifthSteps : List (Str × Str × Int) :=
  [(s "unison", s "1", 0), (s "fifth", s "5", 7), (s "second", s "2", 2), (s "sixth", s "6", 9),
   (s "third", s "3", 4), (s "seventh", s "7", 11), (s "fourth", s "4", 5)]

/-- `determine(note1, note2, shorthand)`; no validation of its own: `measure` raises on malformed names,
    the `fifths.index` lookups raise ValueError on a non-letter -/
def determine (n1 n2 : Str) (short : Bool) : Except Err Str :=
  match n1, n2 with
  | [], _ => .error .index
  | _, [] => .error .index
  | l1 :: t1, l2 :: t2 =>
    if l1 = l2 then
      let x := accVal t1
      let y := accVal t2
      if x = y then pure (if short then s "1" else s "major unison")
      else if x < y then pure (if short then List.replicate (y - x).toNat '#' ++ s "1" else s "augmented unison")
      else if x - y = 1 then pure (if short then s "b1" else s "minor unison")
      else pure (if short then s "bb1" else s "diminished unison")
    else
      match fifths.findIdx? (· == l1), fifths.findIdx? (· == l2) with
      | some i1, some i2 => do
        let steps := if i2 < i1 then fifths.length - i1 + i2 else i2 - i1
        let half ← measure n1 n2
        let (name, sh, maj) := fifthSteps.getD steps ([], [], 0)
        if maj = half then
          if short then pure sh
          else if name = s "fifth" then pure (s "perfect fifth")
          else if name = s "fourth" then pure (s "perfect fourth")
          else pure (s "major " ++ name)
        else if maj + 1 ≤ half then
          pure (if short then List.replicate (half - maj).toNat '#' ++ sh else s "augmented " ++ name)
        else if maj - 1 = half then
          pure (if short then 'b' :: sh else s "minor " ++ name)
        else
          pure (if short then List.replicate (maj - half).toNat 'b' ++ sh else s "diminished " ++ name)
      | _, _ => .error .value

/-- `shorthand_lookup` rows: digit, constructor up, constructor down (by Python name) -/
def shorthandLookup : List (Char × Str × Str) :=
  [('1', s "major_unison", s "major_unison"), ('2', s "major_second", s "minor_seventh"),
   ('3', s "major_third", s "minor_sixth"), ('4', s "major_fourth", s "major_fifth"),
   ('5', s "major_fifth", s "major_fourth"), ('6', s "major_sixth", s "minor_third"),
   ('7', s "major_seventh", s "minor_second")]

/-- the accidental-collecting loop of `from_shorthand`: returns at the first character that is
    neither '#' nor 'b'; falls off the end (Python `None`) when there is none -/
def collect (up : Bool) : Str → Str → Option Str
  | [], _ => none
  | x :: xs, v =>
    if x = '#' then collect up xs (if up then augment v else diminish v)
    else if x = 'b' then collect up xs (if up then diminish v else augment v)
    else some v

/-- `from_shorthand(note, interval, up)`: `False` is rendered as the Boolean, `None` as nil -/
def fromShorthand (note iv : Str) (up : Bool) : Except Err Val :=
  match note with
  | [] => .error .index
  | _ =>
    if !valid note then pure (.bool false)
    else match iv.getLast? with
      | none => .error .index
      | some d =>
        match shorthandLookup.find? (fun r => r.1 == d) with
        | none => pure (.bool false)
        | some (_, u, dn) =>
          match ctorByName (if up then u else dn) note with
          | none => .error .other
          | some (.error e) => .error e
          | some (.ok v) =>
            match collect up iv v with
            | some r => pure (.str r)
            | none => pure .nil

end Mingus.Intervals
