import Mingus.Model.Basic
/- IEEE-754 binary64 arithmetic as exact rational functions: every finite double is a rational, and `+ − × ÷` return the
   correctly rounded (round-to-nearest, ties-to-even) result.  Overflow, subnormals and NaN are not modelled: the bar
   arithmetic stays within 1e-4 … 1e4.  Tied to CPython's floats by the correspondence (`float.*` ops). -/
namespace Mingus.F64

def pow2 (i : Int) : Rat := if i ≥ 0 then (2 : Rat) ^ i.toNat else 1 / (2 : Rat) ^ (-i).toNat

/-- ⌊log₂ a⌋ for a > 0 -/
def ilog2 (a : Rat) : Int :=
  let e0 : Int := (Nat.log2 a.num.natAbs : Int) - (Nat.log2 a.den : Int)
  if pow2 e0 ≤ a then (if pow2 (e0 + 1) ≤ a then e0 + 1 else e0) else e0 - 1

/-- round a rational to the nearest double (ties to even) -/
def round (q : Rat) : Rat :=
  if q = 0 then 0
  else
    let a := if q < 0 then -q else q
    let e := ilog2 a
    let mant := a / pow2 (e - 52)
    let fl : Int := mant.floor
    let frac := mant - fl
    let r : Int := if frac > 1/2 then fl + 1 else if frac < 1/2 then fl else (if fl % 2 = 0 then fl else fl + 1)
    let res := (r : Rat) * pow2 (e - 52)
    if q < 0 then -res else res

def add (a b : Rat) : Rat := round (a + b)
def sub (a b : Rat) : Rat := round (a - b)
def mul (a b : Rat) : Rat := round (a * b)
def div (a b : Rat) : Rat := round (a / b)

/-- the double nearest to 1/1000 (the literal `0.001`) -/
def milli : Rat := round (1 / 1000)

end Mingus.F64
