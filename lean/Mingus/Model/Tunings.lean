import Mingus.Model.Containers
/-
  Model of mingus/extra/tunings.py: StringTuning (find_frets, get_Note, find_fingering, find_note_names,
  find_chord_fingering with its lookup table and `follow` recursion, frets_to_NoteContainer is not needed),
  fingers_needed, and the registry searches get_tuning / get_tunings over an insertion-ordered table.
-/
namespace Mingus.Tun
open Mingus.Containers

/-- one string of a tuning: a single Note, or a course (list of Notes) -/
inductive TString
  | one (n : Note)
  | course (l : List Note)
  deriving DecidableEq, Repr, Inhabited

abbrev Tuning := List TString

/-- the Note that stands for the string (`x[0]` for a course) -/
def TString.base : TString → Except Err Note
  | .one n => .ok n
  | .course (n :: _) => .ok n
  | .course [] => .error .index

def countCourses (t : Tuning) : Rat :=
  F64.div ((t.map fun s => match s with | .one _ => 1 | .course l => l.length).sum : Nat) (t.length : Rat)

/-- `find_frets(note, maxfret)` -/
def findFrets (t : Tuning) (note : Note) (maxfret : Int) : Except Err (List (Option Int)) :=
  t.mapM fun s => do
    let b ← s.base
    let bi ← b.toInt
    let ni ← note.toInt
    let diff := ni - bi
    pure (if 0 ≤ diff ∧ diff ≤ maxfret then some diff else none)

/-- `get_Note(string, fret, maxfret)` -/
def getNote (t : Tuning) (string fret maxfret : Int) : Except Err Note :=
  if 0 ≤ string ∧ string < t.length then
    if 0 ≤ fret ∧ fret ≤ maxfret then
      match t[string.toNat]? with
      | none => .error .index
      | some s => do
        let b ← s.base
        let bi ← b.toInt
        Note.fromInt ⟨lit "C", 4, 1, 64⟩ (bi + fret)
    else .error .range
  else .error .range

abbrev Fingering := List (Nat × Int)

/-- the strings on which the note can be played and that are still free, with the fret -/
def cands (frets : List (Option Int)) (notStrings : List Nat) : List (Nat × Int) :=
  (List.zip (List.range frets.length) frets).filterMap fun (x : Nat × Option Int) =>
    match x.2 with
    | some fr => if notStrings.contains x.1 then none else some (x.1, fr)
    | none => none

/-- the raw recursion of `find_fingering`: every assignment of distinct strings (in string order per note) -/
def assign (t : Tuning) : List Note → List Nat → Except Err (List Fingering)
  | [], _ => .ok []
  | first :: rest, notStrings => do
    let frets ← findFrets t first 24
    (cands frets notStrings).foldlM (fun (acc : List Fingering) (sf : Nat × Int) =>
      if rest = [] then pure (acc ++ [[sf]])
      else do
        let r ← assign t rest (notStrings ++ [sf.1])
        pure (acc ++ r.map (fun f => sf :: f))) []

/-- the span filter: (max fret) − (min non-zero fret) within [0, max_distance), or nothing fretted -/
def spanOk (f : Fingering) (maxDistance : Int) : Bool :=
  let mx := f.foldl (fun m p => if p.2 > m then p.2 else m) (-1)
  let mn := f.foldl (fun m p => if p.2 < m ∧ p.2 ≠ 0 then p.2 else m) 1000
  (0 ≤ mx - mn ∧ mx - mn < maxDistance) ∨ mn = 1000 ∨ mx = -1

def totalFrets (f : Fingering) : Int := (f.map (·.2)).foldl (· + ·) 0

/-- Python's order on `(frets, [(string, fret), …])` tuples -/
def pairLt (a b : Nat × Int) : Bool := a.1 < b.1 || (a.1 == b.1 && a.2 < b.2)
def listLt : Fingering → Fingering → Bool
  | [], [] => false
  | [], _ :: _ => true
  | _ :: _, [] => false
  | a :: as, b :: bs => pairLt a b || (a == b && listLt as bs)
def keyLt (a b : Int × Fingering) : Bool := a.1 < b.1 || (a.1 == b.1 && listLt a.2 b.2)

def insertBy {α} (lt : α → α → Bool) (x : α) : List α → List α
  | [] => [x]
  | y :: ys => if lt y x then y :: insertBy lt x ys else x :: y :: ys
/-- a stable sort: `x` is inserted into the sorted rest of the list in front of the first element that is not smaller -/
def sortBy {α} (lt : α → α → Bool) (l : List α) : List α := l.foldr (insertBy lt) []

/-- `find_fingering(notes, max_distance)` -/
def findFingering (t : Tuning) (notes : List Note) (maxDistance : Int) : Except Err (List Fingering) := do
  let raw ← assign t notes []
  let kept := raw.filter fun f => spanOk f maxDistance
  pure ((sortBy keyLt (kept.map fun f => (totalFrets f, f))).map (·.2))

/-- `fingers_needed(fingering)`; `none` entries are strings that are not played -/
def fingersNeeded (f : List (Option Int)) : Except Err Nat :=
  let fretted := f.filterMap fun x => match x with | some v => if v ≠ 0 then some v else none | none => none
  match fretted with
  | [] => .error .value
  | m0 :: ms =>
    let minimum := ms.foldl (fun m v => if v < m then v else m) m0
    let step := fun (st : Bool × Bool × Nat) (x : Option Int) =>
      let (split, index, result) := st
      if x = some 0 then (true, index, result)
      else if ¬ split ∧ x = some minimum then
        (if ¬ index then (split, true, result + 1) else (split, index, result))
      else (split, index, result + 1)
    .ok (f.reverse.foldl step (false, false, 0)).2.2

/-- `find_note_names(notelist, string, maxfret)`: (fret, name) in ascending order -/
def findNoteNames (t : Tuning) (names : List Str) (string : Nat) (maxfret : Nat) : Except Err (List (Nat × Str)) := do
  let ints ← names.mapM Notes.noteToInt
  match t[string]? with
  | none => .error .index
  | some (.course _) => .error .type
  | some (.one n) => do
    let si ← n.toInt
    let s := si % 12
    pure ((List.range (maxfret + 1)).filterMap fun (x : Nat) =>
      let pc := (s + (x : Int)) % 12
      match ints.findIdx? (· == pc) with
      | some i => some (x, names.getD i [])
      | none => none)

/-- one cell of the lookup table: `[]` or `(name, dest_frets)` -/
abbrev Cell := Option (Option Str × List (Nat × Str))

/-- add a destination to the cell of `fret` (creating the cell with `name` if it is still empty) -/
def addCell (row : List Cell) (fret : Nat) (name : Option Str) (d : Nat × Str) : List Cell :=
  row.mapIdx fun j c => if j = fret then
    (match c with
     | some (nm, l) => some (nm, l ++ [d])
     | none => some (name, [d])) else c

/-- the body of the inner loop of `make_lookup_table` for one (fret, name) of this string and one (f2, n2) of the next;
    `k = 0` is "the None cell has not been filled yet" -/
def cellStep (maxfret : Nat) (maxDistance : Int) (k fret : Nat) (name : Str) (row : List Cell) (d : Nat × Str) : List Cell :=
  let row := if d.2 ≠ name ∧ (d.1 = 0 ∨ ((fret : Int) - d.1).natAbs < maxDistance) then addCell row fret (some name) d else row
  if k = 0 then addCell row (maxfret + 1) none d else row

def rowStep (maxfret : Nat) (maxDistance : Int) (next : List (Nat × Str)) (row : List Cell) (kfn : Nat × Nat × Str) : List Cell :=
  next.foldl (cellStep maxfret maxDistance kfn.1 kfn.2.1 kfn.2.2) row

def tableRow (cur next : List (Nat × Str)) (maxfret : Nat) (maxDistance : Int) : List Cell :=
  (List.zip (List.range cur.length) cur).foldl (rowStep maxfret maxDistance next) (List.replicate (maxfret + 2) none)

/-- `make_lookup_table` -/
def makeTable (fretdict : List (List (Nat × Str))) (maxfret : Nat) (maxDistance : Int) : List (List Cell) :=
  (List.range (fretdict.length - 1)).map fun x => tableRow (fretdict.getD x []) (fretdict.getD (x + 1) []) maxfret maxDistance

/-- the filter inside `follow`: a continuation is kept when this is the first fretted string (`prev < 0`), or its first fret
    is open or within reach of `prev` -/
def keepSub (next : Nat) (name : Option Str) (prev : Int) (maxDistance : Int) (sub : List (Nat × Option Str)) :
    Option (List (Nat × Option Str)) :=
  if prev < 0 then some ((next, name) :: sub)
  else match sub with
    | (f0, _) :: _ => if f0 = 0 ∨ ((f0 : Int) - prev).natAbs < maxDistance then some ((next, name) :: sub) else none
    | [] => none

/-- the continuations through the lookup table cell -/
def viaCell (cell : Cell) (next : Nat) (name : Option Str) (prev : Int) (maxDistance : Int)
    (rec : Nat → Str → List (List (Nat × Option Str))) : List (List (Nat × Option Str)) :=
  match cell with
  | none => []
  | some (_, dests) => dests.flatMap fun (y : Nat × Str) => (rec y.1 y.2).filterMap (keepSub next name prev maxDistance)

/-- `follow(string, next, name, prev)` -/
def follow (res : List (List Cell)) (nstrings maxfret : Nat) (maxDistance : Int) :
    Nat → Nat → Nat → Option Str → Int → List (List (Nat × Option Str))
  | 0, _, next, name, _ => [[(next, name)]]
  | fuel + 1, string, next, name, prev =>
    if string ≥ nstrings - 1 then [[(next, name)]]
    else
      let via := viaCell ((res.getD string []).getD next none) next name prev maxDistance
        (fun a b => follow res nstrings maxfret maxDistance fuel (string + 1) a (some b) (-1))
      let skip := (follow res nstrings maxfret maxDistance fuel (string + 1) (maxfret + 1) none next).map fun s => (next, name) :: s
      if via ++ skip = [] then [[(next, name)]] else via ++ skip

/-- the names of a NoteContainer built from the given note names (bare names voiced upward, sorted, duplicates dropped) -/
def chordNames (names : List Str) : Except Err (List Str) := do
  let nc ← (if names = [] then pure [] else NC.addNotes [] (names.map NC.AddArg.bare))
  pure (nc.map (·.name))

def minFret (named : List (Nat × Option Str)) : Int :=
  named.foldl (fun m p => if p.1 ≠ 0 ∧ (p.1 : Int) ≤ m then (p.1 : Int) else m) (1000 : Int)
def maxFretOf (named : List (Nat × Option Str)) : Int :=
  named.foldl (fun m p => if p.1 ≠ 0 ∧ (p.1 : Int) ≥ m then (p.1 : Int) else m) (-1000 : Int)

def fretsOf (sub : List (Nat × Option Str)) : List (Option Int) :=
  sub.map fun p => if p.2.isSome then some (p.1 : Int) else none

/-- the final test on a candidate: span of the fretted named positions, every chord name present, something named -/
def acceptSub (notenames : List Str) (maxDistance : Int) (sub : List (Nat × Option Str)) : Option (List (Option Int)) :=
  let named := sub.filter fun p => p.2.isSome
  let nms : List Str := named.filterMap (·.2)
  if decide ((((maxFretOf named) - (minFret named)).natAbs : Int) < maxDistance) && notenames.all (fun x => nms.contains x) && !nms.isEmpty then
    some (fretsOf sub)
  else none

/-- every candidate: a cell of the first string's row, one of its destinations, and a continuation from there -/
def candidates (res : List (List Cell)) (row0 : List Cell) (nstrings maxfret : Nat) (maxDistance : Int) : List (List (Nat × Option Str)) :=
  (List.zip (List.range row0.length) row0).flatMap fun (x : Nat × Cell) =>
    match x.2 with
    | none => []
    | some (yname, next) =>
      next.flatMap fun (d : Nat × Str) =>
        (follow res nstrings maxfret maxDistance nstrings 1 d.1 (some d.2) (-1)).map fun s => (x.1, yname) :: s

def fretKey (x : List (Option Int)) : Int := (x.map fun v => match v with | some a => a | none => 1000).foldl (· + ·) 0

/-- keep the elements for which `p` answers true; the first error aborts (a Python list comprehension with a raising test) -/
def filterE {α} (p : α → Except Err Bool) : List α → Except Err (List α)
  | [] => pure []
  | a :: as => do
    let b ← p a
    let r ← filterE p as
    pure (if b then a :: r else r)

def withinFingers (maxFingers : Nat) (a : List (Option Int)) : Except Err Bool := do
  let n ← fingersNeeded a
  pure (decide (n ≤ maxFingers))

/-- `find_chord_fingering(notes, max_distance, maxfret, max_fingers)` for a list of note names -/
def findChordFingering (t : Tuning) (names : List Str) (maxDistance : Int) (maxfret : Nat) (maxFingers : Nat) :
    Except Err (List (List (Option Int))) := do
  let notenames ← chordNames names
  if notenames.length = 0 ∨ notenames.length > t.length then pure []
  else do
    let fretdict ← (List.range t.length).mapM fun x => findNoteNames t notenames x maxfret
    let res := makeTable fretdict maxfret maxDistance
    match res with
    | [] => .error .index
    | row0 :: _ =>
      let accepted := (candidates res row0 t.length maxfret maxDistance).filterMap (acceptSub notenames maxDistance)
      filterE (withinFingers maxFingers) (sortBy (fun a b => fretKey a < fretKey b) accepted)

/-! ### the registry -/

structure Entry where
  instrument : Str
  description : Str
  tuning : Tuning
  deriving DecidableEq, Repr, Inhabited

def upper (x : Str) : Str := x.map fun c => if 'a'.toNat ≤ c.toNat ∧ c.toNat ≤ 'z'.toNat then Char.ofNat (c.toNat - 32) else c

/-- `_known`: instruments in insertion order, each with its descriptions in insertion order (a repeated description
    replaces the tuning in place) -/
def addTuning (known : List (Str × Str × List (Str × Entry))) (e : Entry) : List (Str × Str × List (Str × Entry)) :=
  let ki := upper e.instrument
  let kd := upper e.description
  if known.any (·.1 == ki) then
    known.map fun (k, nm, ds) =>
      if k == ki then
        (k, nm, if ds.any (·.1 == kd) then ds.map (fun (d, x) => if d == kd then (d, e) else (d, x)) else ds ++ [(kd, e)])
      else (k, nm, ds)
  else known ++ [(ki, e.instrument, [(kd, e)])]

def isPrefix (p x : Str) : Bool := x.take p.length == p

/-- the instrument filter shared by both searches: exact key if the search string is a key, prefix otherwise -/
def instrMatch (keys : List Str) (search key : Str) : Bool :=
  if keys.contains search then key == search else isPrefix search key

def countOk (e : Entry) (ns : Option Int) (nc : Option Rat) : Bool :=
  (match ns with | some n => (e.tuning.length : Int) == n | none => true) &&
  (match nc with | some c => countCourses e.tuning == c | none => true)

/-- `get_tuning(instrument, description, nr_of_strings, nr_of_courses)`: the first match in registry order -/
def getTuning (known : List (Str × Str × List (Str × Entry))) (instrument description : Str) (ns : Option Int) (nc : Option Rat) :
    Option Entry :=
  let keys := known.map (·.1)
  let si := upper instrument
  let sd := upper description
  (known.filter fun k => instrMatch keys si k.1).findSome? fun k =>
    (k.2.2.find? fun d => isPrefix sd d.1 && countOk d.2 ns nc).map (·.2)

/-- `get_tunings(instrument, nr_of_strings, nr_of_courses)` -/
def getTunings (known : List (Str × Str × List (Str × Entry))) (instrument : Option Str) (ns : Option Int) (nc : Option Rat) :
    List Entry :=
  let keys := known.map (·.1)
  (known.filter fun k => match instrument with
    | none => true
    | some i => instrMatch keys (upper i) k.1).flatMap fun k => (k.2.2.map (·.2)).filter fun e => countOk e ns nc

end Mingus.Tun
