import Mingus.Model.Notes
import Mingus.Model.Keys
import Mingus.Model.Intervals
import Mingus.Model.Scales
import Mingus.Model.Chords
import Mingus.Model.Progressions
import Mingus.Model.Value
import Mingus.Model.Note
import Mingus.Model.Float
import Mingus.Model.Machines
import Mingus.Model.Alias
import Mingus.Model.Midi
import Mingus.Model.MidiIn
import Mingus.Model.Sequencer
import Mingus.Model.Export
import Mingus.Model.TuningTable
import Mingus.Model.Tablature
/- Line-protocol dispatch: function name + decoded arguments → observation. -/
namespace Mingus
open Val

def dispatchNotes : String → List Val → Option Val
  | "notes.is_valid_note", [str s] => some (toVal (Notes.isValidNote s))
  | "notes.note_to_int", [str s] => some (toVal (Notes.noteToInt s))
  | "notes.int_to_note", [int i, str st] => some (toVal (Notes.intToNote i st))
  | "notes.is_enharmonic", [str a, str b] => some (toVal (Notes.isEnharmonic a b))
  | "notes.augment", [str s] => some (toVal (Notes.augmentE s))
  | "notes.diminish", [str s] => some (toVal (Notes.diminishE s))
  | "notes.reduce_accidentals", [str s] => some (toVal (Notes.reduceAccidentals s))
  | "notes.remove_redundant_accidentals", [str s] => some (toVal (Notes.removeRedundant s))
  | _, _ => none

def dispatchKeys : String → List Val → Option Val
  | "keys.is_valid_key", [str k] => some (toVal (Keys.isValidKey k))
  | "keys.get_key", [int i] => some (toVal (Keys.getKey i))
  | "keys.get_key_signature", [str k] => some (toVal (Keys.getKeySignature k))
  | "keys.get_key_signature_accidentals", [str k] => some (toVal (Keys.getKeySignatureAccidentals k))
  | "keys.get_notes", [str k] => some (toVal (Keys.getNotes k))
  | "keys.relative_major", [str k] => some (toVal (Keys.relativeMajor k))
  | "keys.relative_minor", [str k] => some (toVal (Keys.relativeMinor k))
  | "keys.Key", [str k] => some (toVal ((Keys.keyObj k).map (fun r => Val.list [toVal r.1, toVal r.2.1, toVal r.2.2])))
  | _, _ => none

def dispatchIntervals : String → List Val → Option Val
  | "intervals.interval", [str k, str n, int i] => some (toVal (Intervals.interval k n i.toNat))
  | "intervals.ctor", [str name, str n] => (Intervals.ctorByName name n).map toVal
  | "intervals.diatonic", [str name, str n, str k] =>
      (Intervals.degreeFns.lookup name).map (fun st => toVal (Intervals.interval k n st))
  | "intervals.unison", [str n] => some (toVal (Intervals.interval n n 0))
  | "intervals.measure", [str a, str b] => some (toVal (Intervals.measure a b))
  | "intervals.is_consonant", [str a, str b, Val.bool f] => some (toVal (Intervals.isConsonant a b f))
  | "intervals.is_perfect_consonant", [str a, str b, Val.bool f] => some (toVal (Intervals.isPerfectConsonant a b f))
  | "intervals.is_imperfect_consonant", [str a, str b] => some (toVal (Intervals.isImperfectConsonant a b))
  | "intervals.is_dissonant", [str a, str b, Val.bool f] => some (toVal (Intervals.isDissonant a b f))
  | "intervals.determine", [str a, str b, Val.bool sh] => some (toVal (Intervals.determine a b sh))
  | "intervals.from_shorthand", [str n, str iv, Val.bool up] => some (toVal (Intervals.fromShorthand n iv up))
  | "intervals.det_roundtrip", [str a, str b] =>
      some (match Intervals.determine a b true with
        | .error e => .err e
        | .ok sh => match Intervals.fromShorthand a sh true with
          | .error e => .err e
          | .ok v => .list [.str sh, v])
  | "intervals.updown", [str n, str sh] =>
      some (match Intervals.fromShorthand n sh true with
        | .error e => .err e
        | .ok (.str u) => (match Intervals.fromShorthand u sh false with
          | .error e => .err e
          | .ok v => .list [.str u, v])
        | .ok _ => .err .type)
  | "intervals.invert", [list l] =>
      let strs := l.filterMap (fun v => match v with | str x => some x | _ => Option.none)
      some (toVal (Intervals.invert strs))
  | _, _ => none

def kindOf (name : Str) (semis : List Val) : Option Scales.Kind :=
  let ints := semis.filterMap (fun v => match v with | int i => some i | _ => Option.none)
  match String.ofList name with
  | "Diatonic" => some (.diatonic ints)
  | "Ionian" => some .ionian | "Dorian" => some .dorian | "Phrygian" => some .phrygian | "Lydian" => some .lydian
  | "Mixolydian" => some .mixolydian | "Aeolian" => some .aeolian | "Locrian" => some .locrian
  | "Major" => some .major | "HarmonicMajor" => some .harmonicMajor | "NaturalMinor" => some .naturalMinor
  | "HarmonicMinor" => some .harmonicMinor | "MelodicMinor" => some .melodicMinor | "Bachian" => some .bachian
  | "MinorNeapolitan" => some .minorNeapolitan | "Chromatic" => some .chromatic | "WholeTone" => some .wholeTone
  | "Octatonic" => some .octatonic
  | _ => Option.none

def strList (l : List Val) : List Str := l.filterMap (fun v => match v with | str x => some x | _ => Option.none)

def dispatchScales : String → List Val → Option Val
  | "scales.ascending", [str k, str t, int o, list sem] =>
      (kindOf k sem).map (fun kd => toVal (Scales.ascending ⟨kd, t, o⟩))
  | "scales.descending", [str k, str t, int o, list sem] =>
      (kindOf k sem).map (fun kd => toVal (Scales.descending ⟨kd, t, o⟩))
  | "scales.degree", [str k, str t, int o, list sem, int n, str dir] =>
      (kindOf k sem).map (fun kd => toVal (Scales.degree ⟨kd, t, o⟩ n dir))
  | "scales.len", [str k, str t, int o, list sem] =>
      (kindOf k sem).map (fun kd => toVal (Scales.len ⟨kd, t, o⟩))
  | "scales.eq", [str k, str t, int o, list sem, str k2, str t2, int o2, list sem2] =>
      match kindOf k sem, kindOf k2 sem2 with
      | some a, some b => some (toVal (Scales.eq ⟨a, t, o⟩ ⟨b, t2, o2⟩))
      | _, _ => Option.none
  | "scales.determine", [list ns] => some (toVal (Scales.determine (strList ns)))
  | _, _ => none

def dispatchChords : String → List Val → Option Val
  | "chords.from_shorthand", [str x] => some (toVal (Chords.fromShorthand x))
  | "chords.from_shorthand_list", [list xs] => some (toVal ((strList xs).mapM Chords.fromShorthand))
  | "chords.builder", [str name, str root] => some (toVal (Chords.builderByName name root))
  | "chords.determine", [list c, Val.bool sh, Val.bool ni, Val.bool np] =>
      some (toVal (Chords.determine (strList c) sh ni np))
  | "chords.both", [list c] =>
      some (match Chords.determine (strList c) true false false, Chords.determine (strList c) false false false with
        | .ok a, .ok b => .list [toVal a, toVal b]
        | .error e, _ => .err e
        | _, .error e => .err e)
  | "chords.tables", [] =>
      some (.list [toVal (Chords.chordShorthand.map (·.1)), toVal (Chords.chordMeaning.map (·.1))])
  | "chords.meaning", [str k] => some (toVal (Chords.chordMeaning.lookup k))
  | "chords.triads", [str k] => some (toVal (Chords.triads k))
  | "chords.sevenths", [str k] => some (toVal (Chords.sevenths k))
  | "chords.function", [str name, str k] => some (toVal (Chords.chordFunction name k))
  | _, _ => none

def substByName (name : Str) (p : Str) (ignore : Bool) : Option (Except Err (List Str)) :=
  match String.ofList name with
  | "substitute_harmonic" => some (Progressions.substituteHarmonic p ignore)
  | "substitute_minor_for_major" => some (Progressions.substituteMinorForMajor p ignore)
  | "substitute_major_for_minor" => some (Progressions.substituteMajorForMinor p ignore)
  | "substitute_diminished_for_diminished" => some (Progressions.substituteDimForDim p ignore)
  | "substitute_diminished_for_dominant" => some (Progressions.substituteDimForDom p ignore)
  | _ => Option.none

def dispatchProg : String → List Val → Option Val
  | "prog.parse_string", [str x] =>
      let r := Progressions.parseString x
      some (.list [toVal r.1, toVal r.2.1, toVal r.2.2])
  | "prog.tuple_to_string", [str r, int a, str sf] => some (toVal (Progressions.tupleToString r a sf))
  | "prog.to_chords", [list p, str k] => some (toVal (Progressions.toChords (strList p) k))
  | "prog.determine", [list c, str k, Val.bool sh] => some (toVal (Progressions.determine (strList c) k sh))
  | "prog.subst", [str name, list p, int i, Val.bool ig] =>
      match (strList p)[i.toNat]? with
      | Option.none => some (.err .index)
      | some x => (substByName name x ig).map fun r => match r with
        | .ok res => .list [toVal res, .list p]
        | .error e => .err e
  | "prog.substitute", [list p, int i, int d] =>
      match (strList p)[i.toNat]? with
      | Option.none => some (.err .index)
      | some x => some (match Progressions.substitute d.toNat x with
        | .ok res => .list [toVal res, .list p]
        | .error e => .err e)
  | "prog.skip", [str r, int n] => some (toVal (Progressions.skip r n.toNat))
  | "prog.interval_diff", [str a, str b, int iv] => some (toVal (Progressions.intervalDiff a b iv))
  | _, _ => none

def ratOf : Val → Option Rat
  | .rat n d => some ((n : Rat) / (d : Rat))
  | .int i => some (i : Rat)
  | _ => Option.none
def ratVal (q : Rat) : Val := .rat q.num q.den
def numOf : Val → Option Value.Num
  | .str x => match String.ofList x with
    | "nan" => some .nan | "inf" => some .posInf | "-inf" => some .negInf | _ => Option.none
  | v => (ratOf v).map Value.Num.rat

def dispatchValue : String → List Val → Option Val
  | "value.determine", [v] => (ratOf v).map fun q => match Value.determine q with
      | .ok (b, d, r1, r2) => .list [ratVal b, toVal d, toVal r1, toVal r2]
      | .error e => .err e
  | "value.dots", [v, int n] => (ratOf v).map fun q => ratVal (Value.dotsF q n.toNat)
  | "value.dots_exact", [v, int n] => (ratOf v).map fun q => ratVal (Value.dotsExact q n.toNat)
  | "value.tuplet", [v, int a, int b] => (ratOf v).map fun q => ratVal (Value.tuplet q a.toNat b.toNat)
  | "value.add", [a, b] => match ratOf a, ratOf b with
      | some x, some y => some (match Value.addF x y with | .ok r => ratVal r | .error e => .err e)
      | _, _ => Option.none
  | "value.subtract", [a, b] => match ratOf a, ratOf b with
      | some x, some y => some (match Value.subtractF x y with | .ok r => ratVal r | .error e => .err e)
      | _, _ => Option.none
  | "meter.valid_beat_duration", [v] => (numOf v).map fun n => toVal (Value.validBeat n)
  | "meter.is_valid", [int c, v] => (numOf v).map fun n => toVal (Value.isValid c n)
  | "meter.is_simple", [int c, v] => (numOf v).map fun n => toVal (Value.isValid c n)
  | "meter.is_compound", [int c, v] => (numOf v).map fun n => toVal (Value.isCompound c n)
  | "meter.is_asymmetrical", [int c, v] => (numOf v).map fun n => toVal (Value.isAsymmetrical c n)
  | _, _ => none

open Containers in
def noteVal (n : Note) : Val := .list [.str n.name, .int n.octave, .int n.channel, .int n.velocity]
def optInt : Val → Option Int
  | .int i => some i
  | _ => Option.none

open Containers in
def dispatchNote : String → List Val → Option Val
  | "note.new", [str nm, int o, v, c] => some (match Note.new nm o (optInt v) (optInt c) with
      | .ok n => noteVal n | .error e => .err e)
  | "note.int", [str nm, int o] => some (toVal (do let n ← Note.new nm o Option.none Option.none; n.toInt))
  | "note.from_int", [int i] => some (match Note.fromInt {name := lit "C", octave := 4} i with
      | .ok n => noteVal n | .error e => .err e)
  | "note.repr", [str nm, int o] => some (toVal ((Note.new nm o Option.none Option.none).map Note.repr))
  | "note.cmp", [str a, int ao, str b, int bo] => some (
      match Note.new a ao Option.none Option.none, Note.new b bo Option.none Option.none with
      | .ok x, .ok y => (match Note.lt x y, Note.le x y, Note.eq x y, Note.ne x y, Note.ge x y, Note.gt x y with
        | .ok p, .ok q, .ok r, .ok t, .ok u, .ok w => toVal [p, q, r, t, u, w]
        | _, _, _, _, _, _ => .err .other)
      | .error e, _ => .err e
      | _, .error e => .err e)
  | "note.to_shorthand", [str nm, int o] => some (toVal ((Note.new nm o Option.none Option.none).map Note.toShorthand))
  | "note.from_shorthand", [str sh] => some (match Note.fromShorthand {name := lit "C", octave := 4} sh with
      | .ok n => noteVal n | .error e => .err e)
  | "note.transpose", [str nm, int o, str iv, Val.bool up] => some (
      match (do let n ← Note.new nm o Option.none Option.none; n.transpose iv up) with
      | .ok n => noteVal n | .error e => .err e)
  | "note.change_octave", [str nm, int o, int d] => some (
      match Note.new nm o Option.none Option.none with
      | .ok n => noteVal (n.changeOctave d) | .error e => .err e)
  | _, _ => none

def dispatchFloat : String → List Val → Option Val
  | "float.round", [a] => (ratOf a).map fun x => ratVal (F64.round x)
  | "float.add", [a, b] => match ratOf a, ratOf b with | some x, some y => some (ratVal (F64.add x y)) | _, _ => Option.none
  | "float.sub", [a, b] => match ratOf a, ratOf b with | some x, some y => some (ratVal (F64.sub x y)) | _, _ => Option.none
  | "float.mul", [a, b] => match ratOf a, ratOf b with | some x, some y => some (ratVal (F64.mul x y)) | _, _ => Option.none
  | "float.div", [a, b] => match ratOf a, ratOf b with | some x, some y => some (ratVal (F64.div x y)) | _, _ => Option.none
  | _, _ => none

def dispatchMachines : String → List Val → Option Val
  | "nc.run", [list ops] => Machines.ncRun ops
  | "nc.run2", [list ops] => Machines.ncRun2 ops
  | "bar.run", [str key, int count, u, list ops] => (ratOf u).bind fun q => Machines.barRun key count q ops
  | "track.run", [str instr, list ops] => Machines.trackRun instr ops
  | "comp.run", [list ops] => Machines.compRun ops
  | "nc.from_chord", [str sh] => some (match Containers.NC.fromChordShorthand sh with
      | .ok l => Machines.ncOut l | .error e => .err e)
  | "nc.from_interval", [str nm, int o, str sh, Val.bool up] =>
      some (match Containers.NC.fromIntervalShorthand ⟨nm, o, 1, 64⟩ sh up with | .ok l => Machines.ncOut l | .error e => .err e)
  | "nc.from_progression", [str sh, str key] =>
      some (match Containers.NC.fromProgressionShorthand sh key with
        | .ok (some l) => Machines.ncOut l | .ok Option.none => .bool false | .error e => .err e)
  | _, _ => none

open Alias in
def decodeCall : Val → Option Call
  | .list [.str t, .str a, .str k] =>
    if t = lit "q" then
      (if a = lit "get_notes" then some (.query (.getNotes k)) else if a = lit "triads" then some (.query (.triads k))
       else if a = lit "sevenths" then some (.query (.sevenths k)) else Option.none)
    else Option.none
  | .list [.str t, .str a, .str x, .str k] =>
    if t = lit "q" then
      (if a = lit "func" then some (.query (.func x k)) else if a = lit "to_chords" then some (.query (.toChords x k)) else Option.none)
    else Option.none
  | .list [.str t, .int i, .int r, .str x] => if t = lit "append" then some (.callerAppend i.toNat r.toNat x) else Option.none
  | .list [.str t, .int i, .int r, .int j, .str x] => if t = lit "set" then some (.callerSet i.toNat r.toNat j.toNat x) else Option.none
  | .list [.str t, .int i] => if t = lit "droprow" then some (.callerDropRow i.toNat) else Option.none
  | _ => Option.none

open Alias in
def dispatchAlias : String → List Val → Option Val
  | "alias.memo", [list calls] =>
      (calls.mapM decodeCall).map fun cs => .list ((run true cs).2.map fun r => match r with
        | .ok rows => toVal rows
        | .error e => .err e)
  | "alias.lookup", [list tb, list fs] =>
      let table := tb.filterMap ratOf
      let qs := fs.filterMap ratOf
      some (toVal ((qs.foldl (fun (acc : List Nat × Option (Nat × Rat)) f =>
        let r := lookupMem table acc.2 f; (acc.1 ++ [r.1], r.2)) ([], Option.none)).1))
  | "alias.inst", [Val.bool rebound, list ops] =>
      let decoded := ops.filterMap fun v => match v with
        | .list [.str t] => if t = lit "create" then some InstOp.create else Option.none
        | .list [.str t, .int i, .str x] => if t = lit "append" then some (InstOp.append i.toNat x) else Option.none
        | _ => Option.none
      let o := decoded.foldl (instStep rebound) ⟨[], []⟩
      some (toVal ((List.range o.inst.length).map fun i => o.read i))
  | _, _ => none

namespace MidiDec
open Midi Containers
def note : Val → Option Note
  | .list [.str nm, .int o, .int ch, .int vel] => some ⟨nm, o, ch, vel⟩
  | _ => Option.none
def notes : Val → Option (List Note)
  | .list l => l.mapM note
  | .nil => some []
  | _ => Option.none
def entry : Val → Option MEntry
  | .list [v, ns] => do let q ← ratOf v; let l ← notes ns; pure ⟨q, l, Option.none⟩
  | .list [v, ns, .int b] => do let q ← ratOf v; let l ← notes ns; pure ⟨q, l, some b⟩
  | _ => Option.none
def bar : Val → Option MBar
  | .list [.str k, .int c, .int u, .list es] => do let l ← es.mapM entry; pure ⟨k, c, u, l⟩
  | _ => Option.none
def track : Val → Option MTrack
  | .list [.str nm, i, .list bs] => do
      let l ← bs.mapM bar
      let ins ← (match i with | .nil => some Option.none | .int k => some (some k) | _ => Option.none)
      pure ⟨nm, ins, l⟩
  | _ => Option.none
end MidiDec

def dispatchMidi : String → List Val → Option Val
  | "midi.vlq", [int n] => if n < 0 then Option.none else some (toVal (Midi.toVarbyte n.toNat))
  | "midi.tick", [v] => (ratOf v).map fun q => toVal (Midi.tickOf q)
  | "midi.write", [str kind, payload, int bpm, int rep] =>
      if kind = lit "note" then (MidiDec.note payload).map fun n => toVal (Midi.writeNote n bpm rep)
      else if kind = lit "nc" then (MidiDec.notes payload).map fun n => toVal (Midi.writeNC n bpm rep)
      else if kind = lit "bar" then (MidiDec.bar payload).map fun b => toVal (Midi.writeBar b bpm rep)
      else if kind = lit "track" then (MidiDec.track payload).map fun t => toVal (Midi.writeTrack t bpm rep)
      else if kind = lit "composition" then
        (match payload with | .list l => l.mapM MidiDec.track | _ => Option.none).map fun ts => toVal (Midi.writeComposition ts bpm rep)
      else Option.none
  | _, _ => none

def bytesOf : Val → Option (List Nat)
  | .list l => l.mapM fun v => match v with | .int i => if i < 0 then Option.none else some i.toNat | _ => Option.none
  | _ => Option.none

def readVal (r : Except Err (List MidiIn.RTrack × Int)) : Val :=
  match r with
  | .error e => .err e
  | .ok (ts, bpm) => .list [.int bpm, .list (ts.map fun t => .list [.str t.name, toVal (t.instr.map fun (i : Nat) => (i : Int)),
      .list (t.bars.map fun b => .list [.str b.key, .int b.meter.1, .int b.meter.2.num,
        .list (b.entries.map fun e => .list [ratVal e.value, match e.content with
          | some nc => .list (nc.map fun n => .list [.str n.name, .int n.octave, .int n.channel, .int n.velocity])
          | Option.none => .nil])])])]

def dispatchMidiIn : String → List Val → Option Val
  | "midi.read", [bs] => (bytesOf bs).map fun b => readVal (MidiIn.readBytes b)
  | "midi.roundtrip", [payload, int bpm] =>
      (match payload with | .list l => l.mapM MidiDec.track | _ => Option.none).map fun ts =>
        readVal (do let b ← Midi.writeComposition ts bpm 0; MidiIn.readBytes b)
  | "midi.readvlq", [bs] => (bytesOf bs).map fun b => match MidiIn.varbyte (b.length + 1) 0 0 b with
      | .ok (v, n, _) => toVal [v, n] | .error e => .err e
  | "midi.vlqrt", [int n] => if n < 0 then Option.none else
      some (match MidiIn.varbyte 100 0 0 (Midi.toVarbyte n.toNat ++ [85]) with | .ok (v, k, _) => toVal [v, k] | .error e => .err e)
  | _, _ => none

namespace SeqDec
open Mingus.Seq Mingus.Containers
def ncOf (v : Val) : Option (Option NC) :=
  match v with
  | .nil => some Option.none
  | .list l => (l.mapM MidiDec.note).map fun ns => some (ns.foldl NC.addNoteObj [])
  | _ => Option.none
/-- build the bar as the harness does: place each entry; an entry the bar refuses is appended at the current beat -/
def bar : Val → Option SBar
  | .list [.str k, .int c, .int u, .list es] =>
    match Bar.new k c u with
    | .error _ => Option.none
    | .ok b0 =>
      (es.foldlM (fun (acc : Bar × List SEntry) (e : Val) => do
        let (v, ns, bpm) ← ((match e with
          | .list [v, ns] => some (v, ns, Option.none)
          | .list [v, ns, .int b] => some (v, ns, some b)
          | _ => Option.none) : Option (Val × Val × Option Int))
        let q ← ratOf v
        let content ← ncOf ns
        let b := acc.1
        let r := b.place content q
        let tempo := match content with | Option.none => Option.none | some _ => bpm
        some (if r.1 then r.2 else b, acc.2 ++ [(⟨b.current, q, content, tempo⟩ : SEntry)])) (b0, [])).map fun (r : Bar × List SEntry) => (⟨b0.length, r.2⟩ : SBar)
  | _ => Option.none
def instr : Val → Option Instr
  | .nil => some .plain
  | .int i => some (.nr i)
  | .str s => some (.named s)
  | _ => Option.none
def track : Val → Option (Instr × List SBar)
  | .list [.str _, i, .list bs] => do let ins ← instr i; let l ← bs.mapM bar; pure (ins, l)
  | _ => Option.none
def ints : Val → Option (List Int)
  | .list l => l.mapM fun v => match v with | .int i => some i | _ => Option.none
  | _ => Option.none
def evVal : SEv → Val
  | .play p c v => .list [.str (lit "play"), .int p, .int c, .int v]
  | .stop p c => .list [.str (lit "stop"), .int p, .int c]
  | .sleep s => .list [.str (lit "sleep"), ratVal s]
  | .instr c i b => .list [.str (lit "instr"), .int c, .int i, .int b]
  | .cc c k v => .list [.str (lit "cc"), .int c, .int k, .int v]
def retBpm (r : Option Int) : Val := match r with | some b => .int b | Option.none => .str (lit "empty")

/-- one call of the script: (return value, state) -/
def stepOp (st : St) (op : Val) : Option (Except Err (Val × St)) :=
  match op with
  | .list [.str k, .int i] =>
    if k = lit "attach" then some (.ok (.nil, attach st i.toNat))
    else if k = lit "detach" then some (.ok (.nil, detach st i.toNat)) else Option.none
  | .list [.str k, n] =>
    if k = lit "play_note" then (MidiDec.note n).map fun x => (playNote st x).map fun s => (.bool true, s)
    else if k = lit "stop_note" then (MidiDec.note n).map fun x => (stopNote st x).map fun s => (.bool true, s)
    else Option.none
  | .list [.str k, a, .int b] =>
    if k = lit "play_nc" then (ncOf a).map fun x => (playNC st x).map fun s => (.bool true, s)
    else if k = lit "stop_nc" then (ncOf a).map fun x => (stopNC st x).map fun s => (.bool true, s)
    else if k = lit "modulation" then (match a with | .int ch => some (let r := controlChange st ch 1 b; .ok (.bool r.1, r.2)) | _ => Option.none)
    else if k = lit "main_volume" then (match a with | .int ch => some (let r := controlChange st ch 7 b; .ok (.bool r.1, r.2)) | _ => Option.none)
    else Option.none
  | .list [.str k, a, b, .int c] =>
    if k = lit "bar" then (bar a).map fun x => (playBar st x c).map fun r => (.int r.2, r.1)
    else if k = lit "track" then (track a).map fun x => (playTrack st x.2 c).map fun r => (.int r.2, r.1)
    else if k = lit "bars" then (match a, ints b with
      | .list bs, some ch => (bs.mapM bar).map fun x => (playBars st x ch c).map fun r => (retBpm r.2, r.1)
      | _, _ => Option.none)
    else if k = lit "tracks" then (match a, ints b with
      | .list ts, some ch => (ts.mapM track).map fun x => (playTracks st x ch c).map fun r => (retBpm r.2, r.1)
      | _, _ => Option.none)
    else if k = lit "composition" then (match a with
      | .list ts => (ts.mapM track).bind fun x =>
          (match b with | .nil => some Option.none | v => (ints v).map some).map fun ch =>
            (playComposition st x ch c).map fun (r : St × Option Int) => (retBpm r.2, r.1)
      | _ => Option.none)
    else if k = lit "cc" then (match a, b with
      | .int ch, .int ctl => some (let r := controlChange st ch ctl c; .ok (.bool r.1, r.2))
      | _, _ => Option.none)
    else if k = lit "instr" then (match a, b with
      | .int ch, .int i => some (.ok (.nil, setInstrument st ch i c))
      | _, _ => Option.none)
    else Option.none
  | _ => Option.none

def run (ops : List Val) : Option Val :=
  let rec go (ops : List Val) (st : St) (rets : List Val) : Option Val :=
    match ops with
    | [] => some (.list [.list rets, .list (st.hooks.map evVal), .list ((st.obs.getD 0 []).map evVal),
                         .list ((st.obs.getD 1 []).map evVal), .list (st.high.map fun (n : Nat) => Val.int n)])
    | op :: rest =>
      match stepOp st op with
      | Option.none => Option.none
      | some (.error e) => some (.err e)
      | some (.ok (r, st')) => go rest st' (rets ++ [r])
  go ops {} []
end SeqDec

def dispatchSeq : String → List Val → Option Val
  | "seq.run", [list ops] => SeqDec.run ops
  | _, _ => none

namespace ExpDec
open Mingus.Export Mingus.Containers
def entry : Val → Option LEntry
  | .list [v, ns] => do let q ← ratOf v; let c ← SeqDec.ncOf ns; pure ⟨q, c⟩
  | _ => Option.none
def bar : Val → Option LBar
  | .list [.str k, .int c, .int u, .list es] => (es.mapM entry).map fun l => ⟨k, c, u, l⟩
  | _ => Option.none
def bars : Val → Option (List LBar)
  | .list [.str _, _, .list bs] => bs.mapM bar
  | _ => Option.none
def xinstr : Val → Option (Option XInstr)
  | .nil => some Option.none
  | .list [.str kind, .str name, .int nr] => some (some ⟨kind = lit "midi", name, nr⟩)
  | _ => Option.none
def xtrack : Val → Option XTrack
  | .list [.str nm, i, .list bs] => do let ins ← xinstr i; let l ← bs.mapM bar; pure ⟨nm, ins, l⟩
  | _ => Option.none
partial def xmlVal : Xml → Val
  | .elem t a x c => .list [.str t, .list (a.map fun p => .list [.str p.1, .str p.2]), .str x, .list (c.map xmlVal)]
def optRat : Val → Option (Option Rat)
  | .nil => some Option.none
  | v => (ratOf v).map some
end ExpDec

def dispatchExport : String → List Val → Option Val
  | "ly.note", [n, Val.bool po, Val.bool sa] => (MidiDec.note n).map fun x => toVal (Export.lyNote x po sa)
  | "ly.nc", [ns, d, Val.bool sa] => do
      let c ← SeqDec.ncOf ns
      let dur ← ExpDec.optRat d
      pure (toVal (Export.lyNC c dur sa))
  | "ly.bar", [b, Val.bool sk, Val.bool st] => (ExpDec.bar b).map fun x => toVal (Export.lyBar x sk st)
  | "ly.track", [t] => (ExpDec.bars t).map fun x => toVal (Export.lyTrack x)
  | "ly.composition", [.list [.str title, .str author, .str sub, .list ts]] =>
      (ts.mapM ExpDec.bars).map fun x => toVal (Export.lyComposition title author sub x)
  | "xml.composition", [.list [.str title, .str author, .str _, .list ts]] =>
      (ts.mapM ExpDec.xtrack).map fun x => match Export.xmlComposition title author x with
        | .ok t => .list [ExpDec.xmlVal t, .list [.bool true, .bool true]]
        | .error e => .err e
  | _, _ => none

namespace TunDec
open Mingus.Tun Mingus.Tab Mingus.Containers
def splitDash (x : Str) : Option (Str × Int) :=
  match Note.splitOn '-' x with
  | [nm, o] => (Note.parseNat? o).map fun k => (nm, k)
  | _ => Option.none
def openNote : Val → Option Note
  | .str x => (splitDash x).map fun p => ⟨p.1, p.2, 1, 64⟩
  | _ => Option.none
def tstring : Val → Option TString
  | .str x => (openNote (.str x)).map TString.one
  | .list l => (l.mapM openNote).map TString.course
  | _ => Option.none
def tuning : Val → Option Tuning
  | .nil => some defaultTuning
  | .list l => l.mapM tstring
  | _ => Option.none
def note2 : Val → Option Note
  | .list [.str nm, .int o] => some ⟨nm, o, 1, 64⟩
  | .list [.str nm, .int o, .int c, .int v] => some ⟨nm, o, c, v⟩
  | _ => Option.none
def optInt : Val → Option (Option Int)
  | .nil => some Option.none
  | .int i => some (some i)
  | _ => Option.none
def optRat : Val → Option (Option Rat)
  | .nil => some Option.none
  | v => (ratOf v).map some
def linesVal (r : Except Err (List Line)) : Val :=
  match r with
  | .ok l => toVal (if l = [] then [([] : Str)] else l)
  | .error e => .err e
def fretVal (o : Option Int) : Val := match o with | some i => .int i | Option.none => .nil
def tbar : Val → Option TBar
  | .list [.str _, .int c, u, .list es] => do
      let q ← ratOf u
      let l ← es.mapM fun e => match e with
        | .list [v, ns] => do let d ← ratOf v; let c ← SeqDec.ncOf ns; pure (⟨d, c⟩ : TEntry)
        | _ => Option.none
      pure ⟨c, q, l⟩
  | _ => Option.none
def tbars : Val → Option (List TBar)
  | .list [.str _, _, .list bs] => bs.mapM tbar
  | _ => Option.none
/-- a track of a composition: [name, instrument, bars] on the default tuning, or [name, instrument, bars, strings] on a
    tuning the harness registers as instrument "x", description "y" -/
def ttrack (v : Val) : Option (Option (Str × Str × Tuning) × List TBar) :=
  match v with
  | .list [nm, i, .list bs] => (tbars (.list [nm, i, .list bs])).map fun l => (Option.none, l)
  | .list [nm, i, .list bs, .nil] => (tbars (.list [nm, i, .list bs])).map fun l => (Option.none, l)
  | .list [nm, i, .list bs, tun] => do
      let l ← tbars (.list [nm, i, .list bs])
      let t ← tuning tun
      pure (some (lit "x", lit "y", t), l)
  | _ => Option.none
def entryVal (e : Tun.Entry) : Val := .list [.str e.instrument, .str e.description]
/-- sort by (instrument, description) as the harness does -/
def sortEntries (l : List Tun.Entry) : List Tun.Entry :=
  sortBy (fun a b => strLt a.instrument b.instrument || (a.instrument == b.instrument && strLt a.description b.description)) l
end TunDec

def dispatchTun : String → List Val → Option Val
  | "tun.frets", [t, n, int mf] => do
      let tu ← TunDec.tuning t; let x ← TunDec.note2 n
      pure (match Tun.findFrets tu x mf with | .ok l => .list (l.map TunDec.fretVal) | .error e => .err e)
  | "tun.note", [t, int s, int f, int mf] => (TunDec.tuning t).map fun tu =>
      match Tun.getNote tu s f mf with | .ok n => .list [.str n.name, .int n.octave] | .error e => .err e
  | "tun.fingering", [t, .list ns, int md] => do
      let tu ← TunDec.tuning t; let l ← ns.mapM TunDec.note2
      pure (match Tun.findFingering tu l md with
        | .ok r => .list (r.map fun f => .list (f.map fun p => .list [.int p.1, .int p.2]))
        | .error e => .err e)
  | "tun.chord", [t, .list names, int md, int mf, int mfi] => do
      let tu ← TunDec.tuning t
      let nm ← names.mapM fun v => match v with | .str x => some x | _ => Option.none
      pure (match Tun.findChordFingering tu nm md mf.toNat mfi.toNat with
        | .ok r => .list (r.map fun f => .list (f.map TunDec.fretVal))
        | .error e => .err e)
  | "tun.get", [.str i, .str d, ns, nc] => do
      let a ← TunDec.optInt ns; let b ← TunDec.optRat nc
      pure (match Tun.getTuning Tun.known i d a b with | some e => TunDec.entryVal e | Option.none => .nil)
  | "tun.gets", [i, ns, nc] => do
      let ins ← (match i with | .nil => some Option.none | .str x => some (some x) | _ => Option.none)
      let a ← TunDec.optInt ns; let b ← TunDec.optRat nc
      pure (.list ((TunDec.sortEntries (Tun.getTunings Tun.known ins a b)).map TunDec.entryVal))
  | "tab.note", [t, n, int w] => do
      let tu ← TunDec.tuning t; let x ← TunDec.note2 n
      pure (TunDec.linesVal (Tab.fromNote tu x w))
  | "tab.note_pinned", [t, int ps, int pf, int w] => do
      let tu ← TunDec.tuning t
      pure (TunDec.linesVal (do
        let n ← Tun.getNote tu ps pf 24
        Tab.fromNotePinned tu n ps pf w))
  | "tab.nc", [t, ns, int w] => do
      let tu ← TunDec.tuning t; let c ← SeqDec.ncOf ns
      pure (TunDec.linesVal (Tab.fromNC tu (c.getD []) w))
  | "tab.bar", [t, b, int w] => do
      let tu ← TunDec.tuning t; let x ← TunDec.tbar b
      pure (TunDec.linesVal (Tab.fromBar tu x w))
  | "tab.track", [t, tr, int w] => do
      let tu ← TunDec.tuning t; let x ← TunDec.tbars tr
      pure (TunDec.linesVal (Tab.fromTrack tu x w))
  | "tab.composition", [.list [.str ttl, .str sub, .str au, .str em, .str de, .list trs], int w] => do
      let x ← trs.mapM TunDec.ttrack
      pure (TunDec.linesVal (Tab.fromComposition ttl sub au em de x w))
  | _, _ => none

def dispatch (fn : String) (args : List Val) : Option Val :=
  (dispatchTun fn args).orElse fun _ =>
  (dispatchExport fn args).orElse fun _ =>
  (dispatchSeq fn args).orElse fun _ =>
  (dispatchMidiIn fn args).orElse fun _ =>
  (dispatchMidi fn args).orElse fun _ =>
  (dispatchAlias fn args).orElse fun _ =>
  (dispatchMachines fn args).orElse fun _ =>
  (dispatchFloat fn args).orElse fun _ =>
  (dispatchNote fn args).orElse fun _ =>
  (dispatchValue fn args).orElse fun _ =>
  (dispatchProg fn args).orElse fun _ =>
  (dispatchChords fn args).orElse fun _ =>
  (dispatchScales fn args).orElse fun _ =>
  (dispatchNotes fn args).orElse fun _ =>
  (dispatchKeys fn args).orElse fun _ =>
  dispatchIntervals fn args

def runLine (line : String) : String :=
  match (line.trimAscii.toString.splitOn " ") with
  | [] => "bad-op"
  | fn :: toks =>
    match Val.parseAll toks with
    | none => "bad-op"
    | some args => match dispatch fn args with
      | some v => v.encode
      | none => "bad-op"

end Mingus
