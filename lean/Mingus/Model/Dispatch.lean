import Mingus.Model.Notes
/- Line-protocol dispatch: function name + decoded arguments → observation. -/
namespace Mingus
open Val

def dispatchNotes : String → List Val → Option Val
  | "notes.is_valid_note", [str s] => some (toVal (Notes.isValidNote s))
  | "notes.note_to_int", [str s] => some (toVal (Notes.noteToInt s))
  | "notes.int_to_note", [int i, str st] => some (toVal (Notes.intToNote i st))
  | "notes.is_enharmonic", [str a, str b] => some (toVal (Notes.isEnharmonic a b))
  | "notes.augment", [str s] => some (toVal (Notes.augmentE s))
  | "notes.diminish", [str s] => some (toVal (Notes.diminishE s))
  | "notes.reduce_accidentals", [str s] => some (toVal (Notes.reduceAccidentals s))
  | "notes.remove_redundant_accidentals", [str s] => some (toVal (Notes.removeRedundant s))
  | _, _ => none

def dispatch (fn : String) (args : List Val) : Option Val :=
  dispatchNotes fn args

def runLine (line : String) : String :=
  match (line.trimAscii.toString.splitOn " ") with
  | [] => "bad-op"
  | fn :: toks =>
    match Val.parseAll toks with
    | none => "bad-op"
    | some args => match dispatch fn args with
      | some v => v.encode
      | none => "bad-op"

end Mingus
