/-
  Common vocabulary of the hand-written model: error classes, the value type of the
  driver's line protocol and its codec.  No Mathlib imports anywhere under Model/.
-/
namespace Mingus

abbrev Str := List Char

/-- string literal as a character list -/
abbrev lit (x : String) : Str := x.toList

/-- Error classes (Python exception classes, canonicalised). -/
inductive Err
  | noteFormat | range | format | key | index | type | value | attr
  | unexpectedObject | meterFormat | instrumentRange | finger | io | header | midiFormat
  | zeroDiv | hang | other
  deriving DecidableEq, Repr, Inhabited

def Err.name : Err → String
  | .noteFormat => "NoteFormatError" | .range => "RangeError" | .format => "FormatError"
  | .key => "KeyError" | .index => "IndexError" | .type => "TypeError"
  | .value => "ValueError" | .attr => "AttributeError"
  | .unexpectedObject => "UnexpectedObjectError" | .meterFormat => "MeterFormatError"
  | .instrumentRange => "InstrumentRangeError" | .finger => "FingerError" | .io => "IOError"
  | .header => "HeaderError" | .midiFormat => "MidiFormatError" | .zeroDiv => "ZeroDivisionError"
  | .hang => "Hang" | .other => "Other"

instance {ε α} [DecidableEq ε] [DecidableEq α] : DecidableEq (Except ε α) := fun a b =>
  match a, b with
  | .ok x, .ok y => if h : x = y then isTrue (by rw [h]) else isFalse (by intro e; cases e; exact h rfl)
  | .error x, .error y => if h : x = y then isTrue (by rw [h]) else isFalse (by intro e; cases e; exact h rfl)
  | .ok _, .error _ => isFalse (by intro e; cases e)
  | .error _, .ok _ => isFalse (by intro e; cases e)

/-- Values exchanged over the line protocol. -/
inductive Val
  | str (s : Str)
  | int (i : Int)
  | bool (b : Bool)
  | nil
  | rat (n : Int) (d : Nat)
  | err (e : Err)
  | list (l : List Val)
  deriving Repr, Inhabited

namespace Val

partial def encode : Val → String
  | .str s => "'" ++ ".".intercalate (s.map (fun c => toString c.toNat))
  | .int i => toString i
  | .bool true => "T"
  | .bool false => "F"
  | .nil => "N"
  | .rat n d => "R" ++ toString n ++ "/" ++ toString d
  | .err e => "!" ++ e.name
  | .list l => " ".intercalate (("L" ++ toString l.length) :: l.map encode)

def parseStrTok (t : String) : Option Str :=
  -- t is the token without the leading quote
  if t.isEmpty then some [] else
    (t.splitOn ".").mapM (fun p => p.toNat?.map Char.ofNat)

partial def parse : List String → Option (Val × List String)
  | [] => Option.none
  | t :: rest =>
    if t.startsWith "'" then (parseStrTok (t.drop 1).toString).map (fun s => (.str s, rest))
    else if t == "T" then some (.bool true, rest)
    else if t == "F" then some (.bool false, rest)
    else if t == "N" then some (.nil, rest)
    else if t.startsWith "R" then
      match ((t.drop 1).toString.splitOn "/") with
      | [a, b] => match a.toInt?, b.toNat? with
        | some n, some d => some (.rat n d, rest)
        | _, _ => Option.none
      | _ => Option.none
    else if t.startsWith "L" then
      match (t.drop 1).toString.toNat? with
      | some n =>
        let rec go (k : Nat) (acc : List Val) (ts : List String) : Option (Val × List String) :=
          match k with
          | 0 => some (.list acc.reverse, ts)
          | k+1 => match parse ts with
            | some (v, ts') => go k (v :: acc) ts'
            | Option.none => Option.none
        go n [] rest
      | Option.none => Option.none
    else (t.toInt?).map (fun i => (.int i, rest))

partial def parseAll (ts : List String) : Option (List Val) :=
  match ts with
  | [] => some []
  | _ => match parse ts with
    | some (v, rest) => (parseAll rest).map (v :: ·)
    | Option.none => Option.none

end Val

class ToVal (α : Type) where
  toVal : α → Val
export ToVal (toVal)

instance : ToVal Str := ⟨.str⟩
instance : ToVal Int := ⟨.int⟩
instance : ToVal Nat := ⟨fun n => .int n⟩
instance : ToVal Bool := ⟨.bool⟩
instance : ToVal Val := ⟨id⟩
instance {α} [ToVal α] : ToVal (List α) := ⟨fun l => .list (l.map toVal)⟩
instance {α} [ToVal α] : ToVal (Option α) := ⟨fun o => match o with | some a => toVal a | .none => .nil⟩
instance {α} [ToVal α] : ToVal (Except Err α) :=
  ⟨fun r => match r with | .ok a => toVal a | .error e => .err e⟩
instance {α β} [ToVal α] [ToVal β] : ToVal (α × β) := ⟨fun p => .list [toVal p.1, toVal p.2]⟩

end Mingus
