import Mingus.Model.Containers
/- Line-protocol state machines over the container models: one history per line, one observation per operation. -/
namespace Mingus.Machines
open Mingus Mingus.Containers Val

def ratOf : Val → Option Rat
  | .rat n d => some ((n : Rat) / (d : Rat))
  | .int i => some (i : Rat)
  | _ => none
def ratVal (q : Rat) : Val := .rat q.num q.den
def optInt : Val → Option Int
  | .int i => some i
  | _ => none

def noteOut (n : Note) : Val := .list [.str n.name, .int n.octave]
def ncOut (l : NC) : Val := .list (l.map noteOut)
def contentOut : Option NC → Val
  | none => .nil
  | some nc => ncOut nc

/-- ["obj", name, oct] | ["bare", name] | ["named", name, oct] | ["dyn", name, oct, vel, chan] -/
def decodeAdd : Val → Option NC.AddArg
  | .list [.str t, .str nm, .int o] =>
    if t = lit "obj" then some (.obj ⟨nm, o, 1, 64⟩) else if t = lit "named" then some (.named nm o) else none
  | .list [.str t, .str nm] => if t = lit "bare" then some (.bare nm) else none
  | .list [.str t, .str nm, .int o, v, c] => if t = lit "dyn" then some (.dyn nm o (optInt v) (optInt c)) else none
  | _ => none

def decodeAdds (v : Val) : Option (List NC.AddArg) :=
  match v with
  | .list l => l.mapM decodeAdd
  | _ => none

/-- content of a bar entry: N (rest) or a list of add-arguments building a fresh NoteContainer -/
def decodeContent (v : Val) : Option (Except Err (Option NC)) :=
  match v with
  | .nil => some (.ok none)
  | _ => (decodeAdds v).map fun args => (NC.addNotes [] args).map some

/-! ### NoteContainer machine -/
def ncStep (l : NC) (op : Val) : Option (Except Err NC) :=
  match op with
  | .list [.str t, arg] =>
    if t = lit "add" then (decodeAdd arg).map (NC.addNote l)
    else if t = lit "add_list" ∨ t = lit "plus" then (decodeAdds arg).map (NC.addNotes l)
    else if t = lit "add_nc" then (decodeAdds arg).map fun args => do
      let other ← NC.addNotes [] args            -- the other container voices its own bare names first
      NC.addNotes l (other.map NC.AddArg.obj)
    else if t = lit "remove_name" ∨ t = lit "remove_notes_str" ∨ t = lit "minus_str" then
      match arg with | .str nm => some (.ok (NC.removeByName l nm (-1))) | _ => none
    else if t = lit "remove_names" ∨ t = lit "minus" then match arg with
      | .list names => some (.ok (names.foldl (fun acc v => match v with
          | .str nm => NC.removeByName acc nm (-1)
          | .list [.str nm, .int o] => NC.removeObj acc ⟨nm, o, 1, 64⟩
          | _ => acc) l))
      | _ => none
    else none
  | .list [.str t, .str iv, .bool up] => if t = lit "transpose" then some (NC.transpose l iv up) else none
  | .list [.str t] =>
    if t = lit "augment" then some (NC.augment l) else if t = lit "diminish" then some (NC.diminish l) else none
  | .list [.str t, .str nm, .int o] =>
    if t = lit "remove_name_oct" then some (.ok (NC.removeByName l nm o))
    else if t = lit "remove_obj" ∨ t = lit "remove_notes_obj" ∨ t = lit "minus_obj" then some (.ok (NC.removeObj l ⟨nm, o, 1, 64⟩))
    else none
  | _ => none

def ncSummary (l : NC) : Val :=
  .list [toVal l.length, toVal (NC.names l), toVal (NC.isConsonant l true), toVal (NC.isConsonant l false),
         toVal (NC.isPerfectConsonant l true), toVal (NC.isPerfectConsonant l false), toVal (NC.isImperfectConsonant l),
         toVal (NC.isDissonant l false), toVal (NC.isDissonant l true)]

/-- run a history; an op that raises leaves the container unchanged and records the error -/
def ncRun (ops : List Val) : Option Val :=
  let rec go : List Val → NC → List Val → Option Val
    | [], l, acc => some (.list (acc.reverse ++ [ncSummary l]))
    | op :: rest, l, acc =>
      match ncStep l op with
      | none => none
      | some (.ok l') => go rest l' (ncOut l' :: acc)
      | some (.error e) => go rest l (.err e :: acc)
  go ops [] []

/-! ### NoteContainer machine with OTHER containers that live on (values: nothing is shared between containers) -/
def ncStep2 (st : NC × List NC) (op : Val) : Option (Except Err (NC × List NC)) :=
  match op with
  | .list [.str t, arg] =>
    if t = lit "make_other" then (decodeAdds arg).map fun args => (NC.addNotes [] args).map fun o => (st.1, st.2 ++ [o])
    else if t = lit "add_other" ∨ t = lit "plus_other" then
      match arg with
      | .int k => some (match st.2[k.toNat]? with
        | some o => (NC.addNotes st.1 (o.map NC.AddArg.obj)).map fun l => (l, st.2)
        | none => .error .index)
      | _ => none
    else if t = lit "add" then (decodeAdd arg).map fun a => (NC.addNote st.1 a).map fun l => (l, st.2)
    else if t = lit "remove_name" then match arg with | .str nm => some (.ok (NC.removeByName st.1 nm (-1), st.2)) | _ => none
    else none
  | .list [.str t, .int k, arg] =>
    if t = lit "other_add" then (decodeAdd arg).map fun a =>
      match st.2[k.toNat]? with
      | some o => (NC.addNote o a).map fun o' => (st.1, st.2.set k.toNat o')
      | none => .error .index
    else if t = lit "other_remove_name" then match arg with
      | .str nm => some (match st.2[k.toNat]? with
        | some o => .ok (st.1, st.2.set k.toNat (NC.removeByName o nm (-1)))
        | none => .error .index)
      | _ => none
    else none
  | _ => none

def ncRun2 (ops : List Val) : Option Val :=
  let out (st : NC × List NC) : Val := .list [ncOut st.1, .list (st.2.map ncOut)]
  let rec go : List Val → NC × List NC → List Val → Option Val
    | [], _, acc => some (.list acc.reverse)
    | op :: rest, st, acc =>
      match ncStep2 st op with
      | none => none
      | some (.ok st') => go rest st' (out st' :: acc)
      | some (.error e) => go rest st (.err e :: acc)
  go ops ([], []) []

/-! ### Bar machine -/
def entryOut (e : Entry) : Val := .list [ratVal e.start, ratVal e.value, contentOut e.content]
def barOut (b : Bar) : Val :=
  .list [ratVal b.current, ratVal b.length, toVal b.isFull, ratVal b.spaceLeft, .list (b.entries.map entryOut),
         .list [.int b.meter.1, ratVal b.meter.2], .str b.key]

def barStep (b : Bar) (op : Val) : Option (Except Err (Val × Bar)) :=
  match op with
  | .list [.str t, c, v] =>
    if t = lit "place" then
      match decodeContent c, ratOf v with
      | some (.ok content), some q => let r := b.place content q; some (.ok (toVal r.1, r.2))
      | some (.error e), _ => some (.error e)
      | _, _ => none
    else if t = lit "set_item" then
      match optInt c, decodeContent v with
      | some i, some (.ok content) => some ((b.setItem i.toNat content).map fun b' => (.nil, b'))
      | _, some (.error e) => some (.error e)
      | _, _ => none
    else if t = lit "place_at" then
      match decodeAdds c, ratOf v with
      | some args, some q => some ((b.placeAt args q).map fun b' => (.nil, b'))
      | _, _ => none
    else if t = lit "place_at_entry" then          -- place_notes_at at the start beat the k-th entry actually has
      match decodeAdds c, optInt v with
      | some args, some k => some ((b.placeAt args (((b.entries[k.toNat]?).map (·.start)).getD (-1))).map fun b' => (.nil, b'))
      | _, _ => none
    else if t = lit "set_meter" ∨ t = lit "set_meter_f" then      -- set_meter_f: the beat unit as a Python float
      match optInt c, ratOf v with
      | some n, some q => some ((b.setMeter n q).map fun b' => (.nil, b'))
      | _, _ => none
    else if t = lit "transpose" then
      match c, v with
      | .str iv, .bool up => some ((b.transpose iv up).map fun b' => (.nil, b'))
      | _, _ => none
    else none
  | .list [.str t, x] =>
    if t = lit "rest" then (ratOf x).map fun q => let r := b.place none q; .ok (toVal r.1, r.2)
    else if t = lit "plus" then
      match decodeContent x with
      | some (.ok content) => let r := b.plus content; some (.ok (toVal r.1, r.2))
      | some (.error e) => some (.error e)
      | none => none
    else none
  | .list [.str t] =>
    if t = lit "remove_last" then some (b.removeLast.map fun b' => (ratVal b'.current, b'))
    else if t = lit "augment" then some (b.augment.map fun b' => (.nil, b'))
    else if t = lit "diminish" then some (b.diminish.map fun b' => (.nil, b'))
    else if t = lit "value_left" then some (b.valueLeft.map fun q => (ratVal q, b))
    else none
  | _ => none

def barRun (key : Str) (count : Int) (unit : Rat) (ops : List Val) : Option Val :=
  match Bar.new key count unit with
  | .error e => some (.err e)
  | .ok b0 =>
    let rec go : List Val → Bar → List Val → Option Val
      | [], b, acc => some (.list (acc.reverse ++ [barOut b]))
      | op :: rest, b, acc =>
        match barStep b op with
        | none => none
        | some (.ok (r, b')) => go rest b' (.list [r, barOut b'] :: acc)
        | some (.error e) => go rest b (.err e :: acc)
    go ops b0 []

/-! ### Track and Composition machines -/
def instrumentOf (nm : Str) : Option (Option Instrument) :=
  match String.ofList nm with
  | "none" => some none
  | "Instrument" => some (some genericInstrument)
  | "Piano" => some (some piano)
  | "Guitar" => some (some guitar)
  | "MidiInstrument" => some (some midiInstrument)
  | _ => none

def trackOut (t : Track) : Val := .list (t.bars.map barOut)

partial def decodeItem : Val → Option Track.ChordItem
  | .nil => some .rest
  | .str sh => some (.chord sh)
  | .list l => (l.mapM decodeItem).map .group
  | _ => none

def trackStep (t : Track) (op : Val) : Option (Except Err (Val × Track)) :=
  match op with
  | .list [.str tg, c, v] =>
    if tg = lit "add" ∨ tg = lit "add_raw" then      -- add_raw: a plain list of Note objects instead of a NoteContainer
      match decodeContent c, ratOf v with
      | some (.ok content), some q => some ((t.addNotes content q).map fun r => (toVal r.1, r.2))
      | some (.error e), _ => some (.error e)
      | _, _ => none
    else if tg = lit "add_copy" then                 -- a container copy-constructed from an earlier entry's container
      match optInt c, ratOf v with
      | some i, some q =>
        let content := (t.getNotes[i.toNat]?).bind (·.content)
        some ((t.addNotes content q).map fun r => (toVal r.1, r.2))
      | _, _ => none
    else if tg = lit "from_chords" then
      match c, ratOf v with
      | .list items, some q => (items.mapM decodeItem).map fun its => (t.fromChords its q).map fun t' => (.nil, t')
      | _, _ => none
    else if tg = lit "transpose" then
      match c, v with
      | .str iv, .bool up => some ((t.transpose iv up).map fun t' => (.nil, t'))
      | _, _ => none
    else none
  | .list [.str tg, .str key, .int count, u] =>
    if tg = lit "add_bar" then (ratOf u).map fun q => (Bar.new key count q).map fun b => (.nil, t.addBar b) else none
  | .list [.str tg, c] =>
    if tg = lit "plus" then
      match decodeContent c with
      | some (.ok content) => some ((t.addNotes content 4).map fun r => (toVal r.1, r.2))
      | some (.error e) => some (.error e)
      | none => none
    else none
  | .list [.str tg] =>
    if tg = lit "augment" then some (t.augment.map fun t' => (.nil, t'))
    else if tg = lit "diminish" then some (t.diminish.map fun t' => (.nil, t'))
    else none
  | _ => none

def trackRun (instr : Str) (ops : List Val) : Option Val :=
  match instrumentOf instr with
  | none => none
  | some i =>
    let rec go : List Val → Track → List Val → Option Val
      | [], t, acc => some (.list (acc.reverse ++ [trackOut t]))
      | op :: rest, t, acc =>
        match trackStep t op with
        | none => none
        | some (.ok (r, t')) => go rest t' (.list [r, trackOut t'] :: acc)
        | some (.error e) => go rest t (.list [.err e, trackOut t] :: acc)   -- a raising call leaves the track unchanged
    go ops { instrument := i } []

def compOut (c : Composition) : Val := .list (c.tracks.map trackOut)
def compRun (ops : List Val) : Option Val :=
  let rec go : List Val → Composition → Option Val
    | [], c => some (compOut c)
    | op :: rest, c =>
      match op with
      | .list [.str tg, .str instr] =>
        if tg = lit "add_track" then
          match instrumentOf instr with
          | some i => go rest (c.addTrack { instrument := i })
          | none => none
        else none
      | .list [.str tg, x] =>
        if tg = lit "add_note" then
          match decodeContent x with
          | some (.ok content) => (match c.addNote content with | .ok c' => go rest c' | .error _ => go rest c)
          | _ => none
        else if tg = lit "select" then
          match x with
          | .list idx => go rest { c with selected := idx.filterMap fun v => (optInt v).map Int.toNat }
          | _ => none
        else none
      | _ => none
  go ops {}

end Mingus.Machines
