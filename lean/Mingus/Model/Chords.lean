import Mingus.Model.Intervals
/- Model of mingus/core/chords.py: builders as note-expression lists, the shorthand parser, diatonic
   triads/sevenths and the recognisers. -/
namespace Mingus.Chords
open Mingus.Notes Mingus.Keys Mingus.Intervals
local notation "s" => lit

/-- what a straight-line chord builder computes for one chord note, relative to the root -/
inductive NoteExpr
  | root
  | ctor (name : Str)            -- `intervals.<name>(note)`
  | aug (e : NoteExpr)           -- `notes.augment(e)`
  | dim (e : NoteExpr)           -- `notes.diminish(e)`
  deriving DecidableEq, Repr

def evalExpr (n : Str) : NoteExpr → Except Err Str
  | .root => .ok n
  | .ctor name => match ctorByName name n with
    | some r => r
    | none => .error .attr
  | .aug e => (evalExpr n e).map augment
  | .dim e => (evalExpr n e).map diminish

def evalBuilder (es : List NoteExpr) (n : Str) : Except Err (List Str) := es.mapM (evalExpr n)

private def c (x : String) : NoteExpr := .ctor (lit x)
open NoteExpr in
/-- `chord_shorthand`: shorthand → normal form of the builder it names -/
def chordShorthand : List (Str × List NoteExpr) :=
  let M3 := c "major_third"; let m3 := c "minor_third"; let P5 := c "perfect_fifth"; let d5 := c "minor_fifth"
  let A5 := aug (c "major_fifth"); let M7 := c "major_seventh"; let m7 := c "minor_seventh"; let M6 := c "major_sixth"
  let M2 := c "major_second"; let m2 := c "minor_second"; let P4 := c "perfect_fourth"
  [(s "m", [root, m3, P5]), (s "M", [root, M3, P5]), (s "", [root, M3, P5]), (s "dim", [root, m3, d5]),
   (s "aug", [root, M3, A5]), (s "+", [root, M3, A5]), (s "7#5", [root, M3, A5, m7]), (s "M7+5", [root, M3, A5, m7]),
   (s "M7+", [root, M3, A5, M7]), (s "m7+", [root, M3, A5, m7]), (s "7+", [root, M3, A5, M7]),
   (s "sus47", [root, P4, P5, m7]), (s "7sus4", [root, P4, P5, m7]), (s "sus4", [root, P4, P5]), (s "sus2", [root, M2, P5]),
   (s "sus", [root, P4, P5]), (s "11", [root, P5, m7, P4]), (s "add11", [root, P5, m7, P4]),
   (s "sus4b9", [root, P4, P5, m2]), (s "susb9", [root, P4, P5, m2]),
   (s "m7", [root, m3, P5, m7]), (s "M7", [root, M3, P5, M7]), (s "7", [root, M3, P5, m7]), (s "dom7", [root, M3, P5, m7]),
   (s "m7b5", [root, m3, d5, m7]), (s "dim7", [root, m3, d5, dim m7]), (s "m/M7", [root, m3, P5, M7]),
   (s "mM7", [root, m3, P5, M7]), (s "m6", [root, m3, P5, M6]), (s "M6", [root, M3, P5, M6]), (s "6", [root, M3, P5, M6]),
   (s "6/7", [root, M3, P5, M6, m7]), (s "67", [root, M3, P5, M6, m7]), (s "6/9", [root, M3, P5, M6, M2]),
   (s "69", [root, M3, P5, M6, M2]), (s "9", [root, M3, P5, m7, M2]), (s "add9", [root, M3, P5, m7, M2]),
   (s "7b9", [root, M3, P5, m7, m2]), (s "7#9", [root, M3, P5, m7, aug M2]), (s "M9", [root, M3, P5, M7, M2]),
   (s "m9", [root, m3, P5, m7, M2]), (s "7#11", [root, M3, P5, m7, aug P4]), (s "m11", [root, m3, P5, m7, P4]),
   (s "M11", [root, M3, P5, M7, M2, P4]),
   (s "M13", [root, M3, P5, M7, M2, M6]), (s "m13", [root, m3, P5, m7, M2, M6]), (s "13", [root, M3, P5, m7, M2, M6]),
   (s "add13", [root, M3, P5, m7, M2, M6]), (s "7b5", [root, M3, dim P5, m7]), (s "hendrix", [root, M3, P5, m7, m3]),
   (s "7b12", [root, M3, P5, m7, m3]), (s "5", [root, P5])]

/-- `chord_shorthand_meaning` -/
def chordMeaning : List (Str × Str) :=
  [(s "m", s " minor triad"), (s "M", s " major triad"), (s "", s " major triad"), (s "dim", s " diminished triad"),
   (s "aug", s " augmented triad"), (s "+", s " augmented triad"), (s "7#5", s " augmented minor seventh"),
   (s "M7+5", s " augmented minor seventh"), (s "M7+", s " augmented major seventh"),
   (s "m7+", s " augmented minor seventh"), (s "7+", s " augmented major seventh"), (s "sus47", s " suspended seventh"),
   (s "7sus4", s " suspended seventh"), (s "sus4", s " suspended fourth triad"), (s "sus2", s " suspended second triad"),
   (s "sus", s " suspended fourth triad"), (s "11", s " eleventh"), (s "add11", s " eleventh"),
   (s "sus4b9", s " suspended fourth ninth"), (s "susb9", s " suspended fourth ninth"), (s "m7", s " minor seventh"),
   (s "M7", s " major seventh"), (s "dom7", s " dominant seventh"), (s "7", s " dominant seventh"),
   (s "m7b5", s " half diminished seventh"), (s "dim7", s " diminished seventh"), (s "m/M7", s " minor/major seventh"),
   (s "mM7", s " minor/major seventh"), (s "m6", s " minor sixth"), (s "M6", s " major sixth"), (s "6", s " major sixth"),
   (s "6/7", s " dominant sixth"), (s "67", s " dominant sixth"), (s "6/9", s " sixth ninth"), (s "69", s " sixth ninth"),
   (s "9", s " dominant ninth"), (s "add9", s " dominant ninth"), (s "7b9", s " dominant flat ninth"),
   (s "7#9", s " dominant sharp ninth"), (s "M9", s " major ninth"), (s "m9", s " minor ninth"),
   (s "7#11", s " lydian dominant seventh"), (s "m11", s " minor eleventh"), (s "M11", s " major eleventh"),
   (s "M13", s " major thirteenth"),
   (s "m13", s " minor thirteenth"), (s "13", s " dominant thirteenth"), (s "add13", s " dominant thirteenth"),
   (s "7b5", s " dominant flat five"), (s "hendrix", s " hendrix chord"), (s "7b12", s " hendrix chord"),
   (s "5", s " perfect fifth")]

/-- the named builder functions and the shorthand each implements -/
def namedKey : List (Str × Str) :=
  [(s "major_triad", s "M"), (s "minor_triad", s "m"), (s "diminished_triad", s "dim"), (s "augmented_triad", s "aug"),
   (s "major_seventh", s "M7"), (s "minor_seventh", s "m7"), (s "dominant_seventh", s "7"),
   (s "half_diminished_seventh", s "m7b5"), (s "minor_seventh_flat_five", s "m7b5"), (s "diminished_seventh", s "dim7"),
   (s "minor_major_seventh", s "mM7"), (s "minor_sixth", s "m6"), (s "major_sixth", s "M6"), (s "dominant_sixth", s "67"),
   (s "sixth_ninth", s "69"), (s "minor_ninth", s "m9"), (s "major_ninth", s "M9"), (s "dominant_ninth", s "9"),
   (s "dominant_flat_ninth", s "7b9"), (s "dominant_sharp_ninth", s "7#9"), (s "eleventh", s "11"),
   (s "minor_eleventh", s "m11"), (s "major_eleventh", s "M11"), (s "minor_thirteenth", s "m13"),
   (s "major_thirteenth", s "M13"), (s "dominant_thirteenth", s "13"), (s "suspended_triad", s "sus"),
   (s "suspended_second_triad", s "sus2"), (s "suspended_fourth_triad", s "sus4"), (s "suspended_seventh", s "sus47"),
   (s "suspended_fourth_ninth", s "susb9"), (s "augmented_major_seventh", s "M7+"), (s "augmented_minor_seventh", s "m7+"),
   (s "dominant_flat_five", s "7b5"), (s "lydian_dominant_seventh", s "7#11"), (s "hendrix_chord", s "hendrix")]

def namedBuilders : List (Str × List NoteExpr) :=
  namedKey.filterMap fun r => (chordShorthand.lookup r.2).map fun es => (r.1, es)

def builderByName (name root : Str) : Except Err (List Str) :=
  match namedBuilders.lookup name with
  | some es => evalBuilder es root
  | .none => .error .attr

/-- Python `str.replace(pat, rep)`: non-overlapping, left to right.  `skip` counts the characters of a
    match still to be consumed, so the recursion is structural in the string. -/
def replaceGo (pat rep : Str) : Nat → Str → Str
  | _, [] => []
  | skip+1, _ :: t => replaceGo pat rep skip t
  | 0, ch :: t =>
    if pat ≠ [] ∧ pat.isPrefixOf (ch :: t) then rep ++ replaceGo pat rep (pat.length - 1) t
    else ch :: replaceGo pat rep 0 t

def replaceAll (pat rep : Str) (x : Str) : Str := replaceGo pat rep 0 x

/-- the alias rewriting at the top of `from_shorthand` -/
def normalize (x : Str) : Str :=
  replaceAll (lit "ma") (lit "M") (replaceAll (lit "maj") (lit "M") (replaceAll (lit "-") (lit "m")
    (replaceAll (lit "mi") (lit "m") (replaceAll (lit "min") (lit "m") x))))

inductive Slash
  | none
  | note (n : Str)
  | chord (l : List Str)

/-- number of '/' and '|' characters: bounds the recursion depth of `from_shorthand` -/
def sepCount (x : Str) : Nat := x.count '/' + x.count '|'

/-- `r = slash; for n in res: if n != r[-1]: r.append(n)` -/
def polyAppend : List Str → List Str → Except Err (List Str)
  | r, [] => .ok r
  | r, n :: ns =>
    match r.getLast? with
    | .none => .error .index
    | some last => if n ≠ last then polyAppend (r ++ [n]) ns else polyAppend r ns

/-- position of the first '|' and of the last '/' before it -/
def scanRest : Str → Nat → Option Nat → (Option Nat × Option Nat)
  | [], _, sl => (.none, sl)
  | ch :: t, i, sl =>
    if ch = '/' then scanRest t (i + 1) (some i)
    else if ch = '|' then (some i, sl)
    else scanRest t (i + 1) sl

def slashExceptions : List Str := [s "m/M7", s "6/9", s "6/7"]

/-- `from_shorthand(shorthand_string, slash)` for a string argument -/
def fromShorthandAux : Nat → Str → Slash → Except Err (List Str)
  | 0, _, _ => .error .other
  | f+1, sh, slash =>
    if sh = s "NC" ∨ sh = s "N.C." then .ok []
    else
      let sh := normalize sh
      match sh with
      | [] => .error .index
      | l :: rest0 =>
        if !isLetter l then .error .noteFormat
        else
          let accs := rest0.takeWhile (fun ch => ch == '#' || ch == 'b')
          let name := l :: accs
          let rest := rest0.drop accs.length
          match scanRest rest 0 .none with
          | (some bar, _) => do
            let right ← fromShorthandAux f (rest.drop (bar + 1)) .none
            fromShorthandAux f (name ++ rest.take bar) (.chord right)
          | (.none, some sl) =>
            if !slashExceptions.contains rest then
              fromShorthandAux f (name ++ rest.take sl) (.note (rest.drop (sl + 1)))
            else finish name rest slash
          | (.none, .none) => finish name rest slash
where
  finish (name rest : Str) (slash : Slash) : Except Err (List Str) :=
    match chordShorthand.lookup rest with
    | .none => .error .format
    | some es => do
      let res ← evalBuilder es name
      match slash with
      | .none => pure res
      | .note b =>
        match b with
        | [] => .error .index
        | _ => if valid b then pure (b :: res) else .error .noteFormat
      | .chord r => polyAppend r res

def fromShorthand (sh : Str) : Except Err (List Str) := fromShorthandAux (sepCount sh + 1) sh .none

/-! ### Diatonic triads and sevenths -/
def triad (note key : Str) : Except Err (List Str) := do
  let a ← interval key note 2
  let b ← interval key note 4
  pure [note, a, b]
def seventh (note key : Str) : Except Err (List Str) := do
  let t ← triad note key
  let x ← interval key note 6
  pure (t ++ [x])
def triads (key : Str) : Except Err (List (List Str)) := do
  let ns ← getNotes key
  ns.mapM (fun n => triad n key)
def sevenths (key : Str) : Except Err (List (List Str)) := do
  let ns ← getNotes key
  ns.mapM (fun n => seventh n key)

/-- function names and numeral aliases: name ↦ (takes the seventh table?, row index) -/
def functionTable : List (Str × Bool × Nat) :=
  [(s "tonic", false, 0), (s "tonic7", true, 0), (s "supertonic", false, 1), (s "supertonic7", true, 1),
   (s "mediant", false, 2), (s "mediant7", true, 2), (s "subdominant", false, 3), (s "subdominant7", true, 3),
   (s "dominant", false, 4), (s "dominant7", true, 4), (s "submediant", false, 5), (s "submediant7", true, 5),
   (s "subtonic", false, 6), (s "subtonic7", true, 6),
   (s "I", false, 0), (s "I7", true, 0), (s "ii", false, 1), (s "II", false, 1), (s "ii7", true, 1), (s "II7", true, 1),
   (s "iii", false, 2), (s "III", false, 2), (s "iii7", true, 2), (s "III7", true, 2), (s "IV", false, 3), (s "IV7", true, 3),
   (s "V", false, 4), (s "V7", true, 4), (s "vi", false, 5), (s "VI", false, 5), (s "vi7", true, 5), (s "VI7", true, 5),
   (s "vii", false, 6), (s "VII", false, 6), (s "vii7", true, 6), (s "VII7", true, 6)]

def chordFunction (name key : Str) : Except Err (List Str) :=
  match functionTable.lookup name with
  | .none => .error .key
  | some (sev, i) => do
    let rows ← if sev then sevenths key else triads key
    match rows[i]? with
    | some r => pure r
    | .none => throw .index

/-! ### Chord recognition (`determine` and its helpers) -/
structure Hit where
  short : Str
  tries : Nat
  root : Str
  deriving DecidableEq, Repr

/-- `determine_triad`'s if/elif table: concatenated interval shorthands ↦ chord shorthand -/
def triadTable : List (Str × Str) :=
  [(s "25", s "sus2"), (s "3b7", s "dom7"), (s "3b5", s "7b5"), (s "35", s "M"), (s "3#5", s "aug"), (s "36", s "M6"),
   (s "37", s "M7"), (s "b3b5", s "dim"), (s "b35", s "m"), (s "b36", s "m6"), (s "b3b7", s "m7"), (s "b37", s "m/M7"),
   (s "45", s "sus4"), (s "5b7", s "m7"), (s "57", s "M7")]
/-- `determine_seventh`: (triad name, interval root→4th note) ↦ chord shorthand -/
def seventhTable : List (Str × Str × Str) :=
  [(s "m", s "minor seventh", s "m7"), (s "m", s "major seventh", s "m/M7"), (s "m", s "major sixth", s "m6"),
   (s "M", s "major seventh", s "M7"), (s "M", s "minor seventh", s "7"), (s "M", s "major sixth", s "M6"),
   (s "dim", s "minor seventh", s "m7b5"), (s "dim", s "diminished seventh", s "dim7"),
   (s "aug", s "minor seventh", s "m7+"), (s "aug", s "major seventh", s "M7+"),
   (s "sus4", s "minor seventh", s "sus47"), (s "sus4", s "minor second", s "sus4b9"),
   (s "m7", s "perfect fourth", s "11"), (s "7b5", s "minor seventh", s "7b5")]
def ext5Table : List (Str × Str × Str) :=
  [(s "M7", s "major second", s "M9"), (s "m7", s "major second", s "m9"), (s "m7", s "perfect fourth", s "m11"),
   (s "7", s "major second", s "9"), (s "7", s "minor second", s "7b9"), (s "7", s "augmented second", s "7#9"),
   (s "7", s "minor third", s "7b12"), (s "7", s "augmented fourth", s "7#11"), (s "7", s "major sixth", s "13"),
   (s "M6", s "major second", s "6/9"), (s "M6", s "minor seventh", s "6/7")]
def ext6Table : List (Str × Str × Str) :=
  [(s "9", s "perfect fourth", s "11"), (s "9", s "augmented fourth", s "7#11"), (s "9", s "major sixth", s "13"),
   (s "m9", s "perfect fourth", s "m11"), (s "m9", s "major sixth", s "m13"), (s "M9", s "perfect fourth", s "M11"),
   (s "M9", s "major sixth", s "M13")]
def ext7Table : List (Str × Str × Str) :=
  [(s "11", s "major sixth", s "13"), (s "m11", s "major sixth", s "m13"), (s "M11", s "major sixth", s "M13")]
/-- `int_desc` -/
def intDesc : List (Nat × Str) :=
  [(1, s ""), (2, s ", first inversion"), (3, s ", second inversion"), (4, s ", third inversion"),
   (5, s ", fourth inversion"), (6, s ", fifth inversion"), (7, s ", sixth inversion")]

def lookup2 (t : List (Str × Str × Str)) (a b : Str) : Option Str :=
  (t.find? (fun r => r.1 == a && r.2.1 == b)).map (·.2.2)

/-- `[chord[-1]] + chord[:-1]` -/
def rotR (c : List Str) : List Str :=
  match c.getLast? with
  | some x => x :: c.dropLast
  | .none => []

/-- one line of the result-formatting loop shared by all recognisers -/
def fmtOne (short : Bool) (h : Hit) : Except Err Str :=
  if short then .ok (h.root ++ h.short)
  else match chordMeaning.lookup h.short with
    | .none => .error .key
    | some m => match intDesc.lookup h.tries with
      | .none => .error .type
      | some d => .ok (h.root ++ m ++ d)

def fmt (short : Bool) (hits : List Hit) : Except Err (List Str) := hits.mapM (fmtOne short)

def triadStep (c : List Str) (tries : Nat) : Except Err (List Hit) :=
  match c with
  | [a, b, d] => do
    let i1 ← Intervals.determine a b true
    let i2 ← Intervals.determine a d true
    pure (match triadTable.lookup (i1 ++ i2) with
      | some n => [⟨n, tries, a⟩]
      | .none => [])
  | _ => .error .other

/-- generic inversion exhauster: run `step` on every right-rotation until `tries = last` -/
def exhaust (step : List Str → Nat → Except Err (List Hit)) (last : Nat) (noInv : Bool) :
    Nat → List Str → Nat → Except Err (List Hit)
  | 0, _, _ => .ok []
  | f+1, c, tries => do
    let h ← step c tries
    if tries != last && !noInv then do
      let r ← exhaust step last noInv f (rotR c) (tries + 1)
      pure (h ++ r)
    else pure h

def triadHits (noInv : Bool) (c : List Str) : Except Err (List Hit) := exhaust triadStep 3 noInv 3 c 1

/-- names (without root) of the shorthand-form, root-position answers of a lower recogniser -/
def stripRoot (root : Str) (names : List Str) : List Str := names.map (·.drop root.length)

def extStep (lower : List Str → Except Err (List Hit)) (table : List (Str × Str × Str)) (k : Nat)
    (c : List Str) (tries : Nat) : Except Err (List Hit) :=
  match c[0]?, c[k]? with
  | some r, some x => do
    let lows ← lower (c.take k)
    let lowNames ← fmt true lows
    let iv ← Intervals.determine r x false
    pure ((stripRoot r lowNames).filterMap fun nm => (lookup2 table nm iv).map fun res => ⟨res, tries, r⟩)
  | _, _ => .error .other

def seventhHits (noInv : Bool) (c : List Str) : Except Err (List Hit) :=
  exhaust (extStep (triadHits true) seventhTable 3) 4 noInv 4 c 1
/-- `determine_extended_chord5` also calls `determine_triad(chord[:3], True, True)` (result unused) -/
def ext5Hits (noInv : Bool) (c : List Str) : Except Err (List Hit) :=
  exhaust (fun c tries => do let _ ← triadHits true (c.take 3); extStep (seventhHits true) ext5Table 4 c tries) 5 noInv 5 c 1
def ext6Hits (noInv : Bool) (c : List Str) : Except Err (List Hit) :=
  exhaust (extStep (ext5Hits true) ext6Table 5) 6 noInv 6 c 1
/-- `determine_extended_chord7` stops at `tries == 6` and ignores `no_inversions` -/
def ext7Hits (c : List Str) : Except Err (List Hit) :=
  exhaust (extStep (ext6Hits true) ext7Table 6) 6 false 6 c 1

/-- `function_list[f](slice, True, True, True)` -/
def polyPart (f : Nat) (slice : List Str) : Except Err (List Str) := do
  let hits ← match f with
    | 0 => triadHits true slice
    | 1 => seventhHits true slice
    | 2 => ext5Hits true slice
    | 3 => ext6Hits true slice
    | _ => ext7Hits slice
  fmt true hits

/-- `determine_polychords` -/
def polychords (c : List Str) : Except Err (List Str) :=
  let n := c.length
  if n ≤ 3 ∨ n > 14 then .ok []
  else
    let nr := List.range (min (n - 3) 5)
    nr.foldlM (fun (acc : List Str) (f : Nat) =>
      nr.foldlM (fun (acc : List Str) (f2 : Nat) => do
        let c1s ← polyPart f (c.drop (n - (3 + f)))
        if c1s.isEmpty then pure acc
        else do
          let c2s ← polyPart f2 (c.take (f2 + 3))
          pure (acc ++ c1s.flatMap fun a => c2s.map fun b => a ++ ['|'] ++ b)) acc) []

/-- the recogniser selected by the chord's length (3 … 7 notes) -/
def hitsFor (noInv : Bool) (c : List Str) : Except Err (List Hit) :=
  if c.length = 3 then triadHits noInv c
  else if c.length = 4 then seventhHits noInv c
  else if c.length = 5 then ext5Hits noInv c
  else if c.length = 6 then ext6Hits noInv c
  else ext7Hits c

/-- `chords.determine(chord, shorthand, no_inversions, no_polychords)`; for three notes `polychords` is empty -/
def determine (c : List Str) (short noInv noPoly : Bool) : Except Err (List Str) :=
  match c with
  | [] => .ok []
  | [a] => .ok [a]
  | [a, b] => do let d ← Intervals.determine a b false; pure [d]
  | _ =>
    if c.length ≥ 8 then polychords c
    else do
      let h ← hitsFor noInv c
      let r ← fmt short h
      let p ← if noPoly then pure [] else polychords c
      pure (r ++ p)

end Mingus.Chords
