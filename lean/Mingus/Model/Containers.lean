import Mingus.Model.Note
import Mingus.Model.Float
import Mingus.Model.Chords
import Mingus.Model.Progressions
/- Model of mingus/containers: NoteContainer, Bar (IEEE-exact float accounting), Track, Composition, Instrument. -/
namespace Mingus.Containers
open Mingus.Notes Mingus.Intervals
local notation "s" => lit

/-! ### NoteContainer -/
abbrev NC := List Note

namespace NC

/-- Python's `list.sort()` on Notes: stable, comparing with `<` on the pitch number -/
def insertSorted (n : Note) : NC → NC
  | [] => [n]
  | x :: xs => if n.pitch < x.pitch then n :: x :: xs else x :: insertSorted n xs
def sort (l : NC) : NC := l.foldl (fun acc n => insertSorted n acc) []

/-- `note not in self.notes` (Note equality is pitch equality) -/
def hasPitch (l : NC) (n : Note) : Bool := l.any (fun x => x.pitch == n.pitch)

/-- `add_note(<Note object>)` -/
def addNoteObj (l : NC) (n : Note) : NC := if hasPitch l n then l else sort (l ++ [n])

/-- the forms a note can be added in -/
inductive AddArg
  | obj (n : Note)
  | bare (name : Str)                         -- a bare name: voiced at or above the top note
  | named (name : Str) (octave : Int)         -- name with octave
  | dyn (name : Str) (octave : Int) (vel chan : Option Int)
  deriving Repr

/-- `add_note(note, octave, dynamics)` -/
def addNote (l : NC) : AddArg → Except Err NC
  | .obj n => pure (addNoteObj l n)
  | .named nm o => do let n ← Note.new nm o none none; pure (addNoteObj l n)
  | .dyn nm o v c => do let n ← Note.new nm o v c; pure (addNoteObj l n)
  | .bare nm =>
    match l.getLast? with
    | none => do let n ← Note.new nm 4 none none; pure (addNoteObj l n)
    | some top => do
      let cand ← Note.new nm top.octave none none
      let below ← Note.lt cand top
      let n ← if below then Note.new nm (top.octave + 1) none none else pure cand
      pure (addNoteObj l n)

def addNotes (l : NC) (args : List AddArg) : Except Err NC := args.foldlM addNote l

/-- `remove_note(name, octave=-1)` and `remove_note(<Note>)` -/
def removeByName (l : NC) (nm : Str) (octave : Int) : NC :=
  l.filter fun x => x.name != nm || (x.octave != octave && octave != -1)
def removeObj (l : NC) (n : Note) : NC := l.filter fun x => x.pitch != n.pitch

def names (l : NC) : List Str := l.foldl (fun acc n => if acc.contains n.name then acc else acc ++ [n.name]) []

/-- `NoteContainer.__eq__` -/
def eq (a b : NC) : Bool := a.length == b.length && a.all (fun x => hasPitch b x)

/-- `_consonance_test` -/
def pairwise (test : Str → Str → Except Err Bool) : NC → Except Err Bool
  | [] => pure true
  | x :: xs => do
    let ok ← xs.foldlM (fun (acc : Bool) y => if acc then test x.name y.name else pure false) true
    if ok then pairwise test xs else pure false

def isConsonant (l : NC) (fourths : Bool) : Except Err Bool := pairwise (fun a b => Intervals.isConsonant a b fourths) l
def isPerfectConsonant (l : NC) (fourths : Bool) : Except Err Bool :=
  pairwise (fun a b => Intervals.isPerfectConsonant a b fourths) l
def isImperfectConsonant (l : NC) : Except Err Bool := pairwise Intervals.isImperfectConsonant l
def isDissonant (l : NC) (fourths : Bool) : Except Err Bool := do let c ← isConsonant l (!fourths); pure (!c)

/-- the element-wise operations (no re-sorting, as in the code) -/
def transpose (l : NC) (iv : Str) (up : Bool) : Except Err NC := l.mapM fun n => n.transpose iv up
def augment (l : NC) : Except Err NC := l.mapM Note.augment
def diminish (l : NC) : Except Err NC := l.mapM Note.diminish

/-- constructors from shorthand -/
def fromChordShorthand (sh : Str) : Except Err NC := do
  let ns ← Chords.fromShorthand sh
  addNotes [] (ns.map AddArg.bare)
def fromIntervalShorthand (start : Note) (sh : Str) (up : Bool) : Except Err NC := do
  let n ← start.transpose sh up
  addNotes [] [.obj start, .obj n]
def fromProgressionShorthand (sh key : Str) : Except Err (Option NC) := do
  let cs ← Progressions.toChords [sh] key
  match cs with
  | [] => pure none
  | c :: _ => do let r ← addNotes [] (c.map AddArg.bare); pure (some r)

end NC

/-! ### Bar -/
structure Entry where
  start : Rat            -- a double
  value : Rat            -- the duration argument (a double)
  content : Option NC    -- `none` = rest
  deriving Repr, DecidableEq

structure Bar where
  key : Str := s "C"
  meter : Int × Rat := (4, 4)
  length : Rat := 1
  current : Rat := 0
  entries : List Entry := []
  deriving Repr, DecidableEq

namespace Bar
open F64

def isPow2Rat (q : Rat) : Bool := q.den == 1 && q.num > 0 && (let n := q.num.toNat; n.log2 |> fun k => 2 ^ k == n)

/-- `set_meter((count, unit))` -/
def setMeter (b : Bar) (count : Int) (unit : Rat) : Except Err Bar :=
  if isPow2Rat unit then pure { b with meter := (count, unit), length := mul count (div 1 unit) }
  else if count = 0 ∧ unit = 0 then pure { b with meter := (0, 0), length := 0 }
  else throw .meterFormat

/-- `Bar(key, meter)` -/
def new (key : Str) (count : Int) (unit : Rat) : Except Err Bar := do
  let _ ← Keys.keyObj key
  let b ← setMeter { key := key } count unit
  pure { b with entries := [], current := 0 }

/-- `place_notes(notes, duration)` with already converted content: (accepted?, bar) -/
def place (b : Bar) (content : Option NC) (v : Rat) : Bool × Bar :=
  let step := div 1 v
  if add b.current step ≤ b.length ∨ b.length = 0 then
    (true, { b with entries := b.entries ++ [⟨b.current, v, content⟩], current := add b.current step })
  else (false, b)

/-- `bar + notes` -/
def plus (b : Bar) (content : Option NC) : Bool × Bar := place b content (if b.meter.2 ≠ 0 then b.meter.2 else 4)

/-- `remove_last_entry` -/
def removeLast (b : Bar) : Except Err Bar :=
  match b.entries.getLast? with
  | none => throw .index
  | some e => pure { b with current := sub b.current (div 1 e.value), entries := b.entries.dropLast }

def isFull (b : Bar) : Bool :=
  if b.length = 0 then false else if b.entries.isEmpty then false else decide (b.current ≥ sub b.length milli)
def spaceLeft (b : Bar) : Rat := sub b.length b.current
def valueLeft (b : Bar) : Except Err Rat := if spaceLeft b = 0 then throw .zeroDiv else pure (div 1 (spaceLeft b))

/-- `bar[index] = content` -/
def setItem (b : Bar) (i : Nat) (content : Option NC) : Except Err Bar :=
  if i < b.entries.length then pure { b with entries := b.entries.mapIdx fun j e => if j = i then { e with content := content } else e }
  else throw .index

/-- `place_notes_at(notes, at)`: every entry starting at `at` gets the notes added (a rest there raises TypeError) -/
def placeAt (b : Bar) (args : List NC.AddArg) (at_ : Rat) : Except Err Bar := do
  let es ← b.entries.mapM fun e =>
    if e.start = at_ then match e.content with
      | none => throw .type
      | some nc => do let r ← NC.addNotes nc args; pure { e with content := some r }
    else pure e
  pure { b with entries := es }

def mapContent (b : Bar) (f : NC → Except Err NC) : Except Err Bar := do
  let es ← b.entries.mapM fun e => match e.content with
    | none => pure e
    | some nc => do let r ← f nc; pure { e with content := some r }
  pure { b with entries := es }
def transpose (b : Bar) (iv : Str) (up : Bool) : Except Err Bar := mapContent b fun nc => NC.transpose nc iv up
def augment (b : Bar) : Except Err Bar := mapContent b NC.augment
def diminish (b : Bar) : Except Err Bar := mapContent b NC.diminish

end Bar

/-! ### Instrument, Track, Composition -/
structure Instrument where
  lo : Note
  hi : Note
  maxNotes : Option Nat := none      -- Guitar: at most six notes
  deriving Repr, DecidableEq

def genericInstrument : Instrument := ⟨⟨s "C", 0, 1, 64⟩, ⟨s "C", 8, 1, 64⟩, none⟩
def piano : Instrument := ⟨⟨s "F", 0, 1, 64⟩, ⟨s "B", 8, 1, 64⟩, none⟩
def guitar : Instrument := ⟨⟨s "E", 3, 1, 64⟩, ⟨s "E", 7, 1, 64⟩, some 6⟩
def midiInstrument : Instrument := ⟨⟨s "C", 0, 1, 64⟩, ⟨s "B", 8, 1, 64⟩, none⟩

def Instrument.canPlay (i : Instrument) (nc : NC) : Bool :=
  (match i.maxNotes with | some m => nc.length ≤ m | none => true) &&
  nc.all fun n => i.lo.pitch ≤ n.pitch && n.pitch ≤ i.hi.pitch

structure Track where
  bars : List Bar := []
  instrument : Option Instrument := none
  deriving Repr, DecidableEq

namespace Track

/-- the bars `add_notes` works on: a first bar for an empty track, a fresh bar (same key and meter) after a full last bar -/
def prepared (t : Track) : List Bar :=
  let bars0 := if t.bars.isEmpty then [({} : Bar)] else t.bars
  let last := bars0.getLast?.getD {}
  if last.isFull then bars0 ++ [{ key := last.key, meter := last.meter, length := last.length }] else bars0

/-- `add_notes(content, value)` (rests skip the instrument gate): (accepted?, track).  As in the code, a bar opened for
    an item that is then refused stays behind (recorded finding C14-refused-add-opens-bar). -/
def addNotes (t : Track) (content : Option NC) (v : Rat) : Except Err (Bool × Track) := do
  match t.instrument, content with
  | some i, some nc => if !i.canPlay nc then throw .instrumentRange
  | _, _ => pure ()
  let r := ((prepared t).getLast?.getD {}).place content v
  pure (if r.1 then (true, { t with bars := (prepared t).dropLast ++ [r.2] }) else (false, { t with bars := prepared t }))

def addBar (t : Track) (b : Bar) : Track := { t with bars := t.bars ++ [b] }

def getNotes (t : Track) : List Entry := t.bars.flatMap (·.entries)

def mapBars (t : Track) (f : Bar → Except Err Bar) : Except Err Track := do
  let bs ← t.bars.mapM f
  pure { t with bars := bs }
def transpose (t : Track) (iv : Str) (up : Bool) : Except Err Track := mapBars t fun b => b.transpose iv up
def augment (t : Track) : Except Err Track := mapBars t Bar.augment
def diminish (t : Track) : Except Err Track := mapBars t Bar.diminish

/-- nested chord lists for `from_chords` -/
inductive ChordItem
  | rest
  | chord (sh : Str)
  | group (items : List ChordItem)

/-- `add_chord(chord, duration)` of `from_chords` (after the repair: rests are split like chords) -/
def addChord (t : Track) (item : ChordItem) (v : Rat) : Except Err Track :=
  match item with
  | .group items => items.foldlM (fun t c => addChord t c (F64.mul v 2)) t
  | leaf => do
    let content ← match leaf with
      | .chord sh => do let nc ← NC.fromChordShorthand sh; pure (some nc)
      | _ => pure none
    let (ok, t1) ← addNotes t content v
    if ok then pure t1
    else do
      let last := t1.bars.getLast?.getD {}
      let dur ← last.valueLeft
      let (_, t2) ← addNotes t1 content dur
      let rest := F64.div 1 (F64.sub (F64.div 1 v) (F64.div 1 dur))
      let (_, t3) ← addNotes t2 content rest
      pure t3

def fromChords (t : Track) (items : List ChordItem) (v : Rat) : Except Err Track :=
  items.foldlM (fun t c => addChord t c v) t

end Track

structure Composition where
  tracks : List Track := []
  selected : List Nat := []
  deriving Repr

namespace Composition
def addTrack (c : Composition) (t : Track) : Composition := { tracks := c.tracks ++ [t], selected := [c.tracks.length] }
/-- `add_note`: `track + note` on every selected track (value 4) -/
def addNote (c : Composition) (content : Option NC) : Except Err Composition := do
  let ts ← c.tracks.mapIdx (fun i t => (i, t)) |>.mapM fun (it : Nat × Track) =>
    if c.selected.contains it.1 then do let r ← it.2.addNotes content 4; pure r.2 else pure it.2
  pure { c with tracks := ts }
end Composition

end Mingus.Containers
