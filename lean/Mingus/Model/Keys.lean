import Mingus.Model.Notes
/- Model of mingus/core/keys.py (the `_key_cache` memo is C15's business; this is the pure function). -/
namespace Mingus.Keys
open Mingus.Notes

local notation "s" => lit

/-- `keys` : (major, minor) couples ordered from 7 flats to 7 sharps -/
def keys : List (Str × Str) :=
  [(s "Cb", s "ab"), (s "Gb", s "eb"), (s "Db", s "bb"), (s "Ab", s "f"), (s "Eb", s "c"),
   (s "Bb", s "g"), (s "F", s "d"), (s "C", s "a"), (s "G", s "e"), (s "D", s "b"),
   (s "A", s "f#"), (s "E", s "c#"), (s "B", s "g#"), (s "F#", s "d#"), (s "C#", s "a#")]

def majorKeys : List Str := keys.map (·.1)
def minorKeys : List Str := keys.map (·.2)
def allKeys : List Str := majorKeys ++ minorKeys
def baseScale : List Char := ['C', 'D', 'E', 'F', 'G', 'A', 'B']

def inCouple (k : Str) (c : Str × Str) : Bool := k == c.1 || k == c.2

/-- `is_valid_key` -/
def isValidKey (k : Str) : Bool := keys.any (inCouple k)

/-- `get_key` -/
def getKey (i : Int) : Except Err (Str × Str) :=
  if i < -7 ∨ i > 7 then .error .range else .ok (keys.getD (i + 7).toNat ([], []))

/-- `get_key_signature` -/
def getKeySignature (k : Str) : Except Err Int :=
  match keys.findIdx? (inCouple k) with
  | some i => .ok ((i : Int) - 7)
  | none => .error .noteFormat

/-- `get_key_signature_accidentals` -/
def getKeySignatureAccidentals (k : Str) : Except Err (List Str) := do
  let a ← getKeySignature k
  if a < 0 then pure ((fifths.reverse.take (-a).toNat).map (fun c => [c, 'b']))
  else if a > 0 then pure ((fifths.take a.toNat).map (fun c => [c, '#']))
  else pure []

def rotate {α} (l : List α) (k : Nat) : List α := l.drop k ++ l.take k

/-- `get_notes` -/
def getNotes (k : Str) : Except Err (List Str) := do
  if !isValidKey k then throw .noteFormat
  let accs ← getKeySignatureAccidentals k
  let altered := accs.filterMap List.head?
  let sig ← getKeySignature k
  let symbol : Char := if sig < 0 then 'b' else '#'
  let tonic := (k.headD 'C').toUpper
  let idx := baseScale.idxOf tonic
  pure ((rotate baseScale idx).map (fun n => if altered.contains n then [n, symbol] else [n]))

/-- `relative_major` / `relative_minor` -/
def relativeMajor (k : Str) : Except Err Str :=
  match keys.find? (fun c => k == c.2) with
  | some c => .ok c.1
  | none => .error .noteFormat
def relativeMinor (k : Str) : Except Err Str :=
  match keys.find? (fun c => k == c.1) with
  | some c => .ok c.2
  | none => .error .noteFormat

/-- `Key(k)` : (name, mode, signature) -/
def keyObj (k : Str) : Except Err (Str × Str × Int) :=
  match k with
  | [] => .error .index
  | c :: t =>
    let mode := if c.isLower then s "minor" else s "major"
    let symbol := match t with
      | [] => []
      | x :: _ => if x = '#' then s "sharp " else s "flat "
    let name := [c.toUpper] ++ s " " ++ symbol ++ mode
    match getKeySignature k with
    | .ok sig => .ok (name, mode, sig)
    | .error e => .error e

end Mingus.Keys
