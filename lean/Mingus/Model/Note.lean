import Mingus.Model.Intervals
/- Model of mingus/containers/note.py (the Hz conversions are treated in Props/C10Hz over the reals). -/
namespace Mingus.Containers
open Mingus.Notes Mingus.Intervals
local notation "s" => lit

structure Note where
  name : Str
  octave : Int
  channel : Int := 1
  velocity : Int := 64
  deriving DecidableEq, Repr, Inhabited

namespace Note

/-- `__int__` -/
def toInt (n : Note) : Except Err Int :=
  match n.name with
  | [] => .error .index
  | l :: t => do
    let base ← noteToInt [l]
    pure (n.octave * 12 + base + accVal t)

/-- total pitch number for valid names -/
def pitch (n : Note) : Int :=
  match n.name with
  | [] => 0
  | l :: t => n.octave * 12 + (natural? l).getD 0 + accVal t

def setVelocity (n : Note) (v : Int) : Except Err Note :=
  if 0 ≤ v ∧ v < 128 then .ok { n with velocity := v } else .error .value
def setChannel (n : Note) (c : Int) : Except Err Note :=
  if 0 ≤ c ∧ c < 16 then .ok { n with channel := c } else .error .value

def splitOn (sep : Char) : Str → List Str
  | [] => [[]]
  | c :: t =>
    if c = sep then [] :: splitOn sep t
    else match splitOn sep t with
      | [] => [[c]]
      | h :: r => (c :: h) :: r

/-- Python `int(text)` on the digit strings the property uses ("Name-octave" with a non-negative octave) -/
def parseNat? (x : Str) : Option Int :=
  if x = [] ∨ !x.all Char.isDigit then none
  else some (x.foldl (fun acc c => acc * 10 + (c.toNat - '0'.toNat : Nat)) (0 : Int))

/-- `set_note(name, octave, dynamics)` -/
def setNote (n : Note) (name : Str) (octave : Int) (vel chan : Option Int) : Except Err Note := do
  let n ← match vel with | some v => setVelocity n v | none => pure n
  let n ← match chan with | some c => setChannel n c | none => pure n
  match splitOn '-' name with
  | [one] =>
    let v ← isValidNote one
    if v then pure { n with name := one, octave := octave } else throw .noteFormat
  | [nt, oc] =>
    let v ← isValidNote nt
    if v then match parseNat? oc with
      | some o => pure { n with name := nt, octave := o }
      | none => throw .value
    else throw .noteFormat
  | _ => throw .noteFormat

/-- `Note(name, octave, velocity=…, channel=…)` -/
def new (name : Str) (octave : Int) (vel chan : Option Int) : Except Err Note :=
  setNote {name := s "C", octave := 4} name octave vel chan

/-- `Note(other_note)`: a fresh object with the same name, octave and dynamics -/
def copy (n : Note) : Except Err Note := setNote {name := s "C", octave := 4} n.name n.octave (some n.velocity) (some n.channel)

/-- `from_int` -/
def fromInt (n : Note) (i : Int) : Except Err Note := do
  let nm ← intToNote (i % 12) ['#']
  pure { n with name := nm, octave := i / 12 }

def augment (n : Note) : Except Err Note := (augmentE n.name).map fun x => { n with name := x }
def diminish (n : Note) : Except Err Note := (diminishE n.name).map fun x => { n with name := x }
/-- `change_octave`: never below octave 0 -/
def changeOctave (n : Note) (d : Int) : Note := { n with octave := if n.octave + d < 0 then 0 else n.octave + d }

def lt (a b : Note) : Except Err Bool := do let x ← a.toInt; let y ← b.toInt; pure (decide (x < y))
def eq (a b : Note) : Except Err Bool := do let x ← a.toInt; let y ← b.toInt; pure (decide (x = y))
def ne (a b : Note) : Except Err Bool := do let e ← eq a b; pure (!e)
def gt (a b : Note) : Except Err Bool := do
  let l ← lt a b
  if l then pure false else do let e ← eq a b; pure (!e)
def le (a b : Note) : Except Err Bool := do
  let l ← lt a b
  if l then pure true else eq a b
def ge (a b : Note) : Except Err Bool := do let l ← lt a b; pure (!l)

/-- `transpose(interval, up)` -/
def transpose (n : Note) (iv : Str) (up : Bool) : Except Err Note := do
  match ← Intervals.fromShorthand n.name iv up with
  | .str nm =>
    let n' := { n with name := nm }
    if up then
      let l ← lt n' n
      pure (if l then { n' with octave := n'.octave + 1 } else n')
    else
      let g ← gt n' n
      pure (if g then { n' with octave := n'.octave - 1 } else n')
  | _ => throw .type

/-- decimal digits (`%d` formatting), structurally recursive on fuel so that proofs and the kernel can unfold it -/
def digitsF : Nat → Nat → Str
  | 0, _ => []
  | f+1, n => if n < 10 then [Char.ofNat (48 + n)] else digitsF f (n / 10) ++ [Char.ofNat (48 + n % 10)]
def showNat (n : Nat) : Str := digitsF (n + 1) n
def showInt (i : Int) : Str := if i < 0 then '-' :: showNat (-i).toNat else showNat i.toNat

/-- `__repr__` -/
def repr (n : Note) : Str := ['\''] ++ n.name ++ ['-'] ++ showInt n.octave ++ ['\'']

/-- `to_shorthand` (Helmholtz) -/
def toShorthand (n : Note) : Str :=
  let res := if n.octave < 3 then n.name else n.name.map Char.toLower
  let o := n.octave - 3
  if o < -1 then res ++ List.replicate (-1 - o).toNat ','
  else if o > 0 then res ++ List.replicate o.toNat '\''
  else res

/-- `from_shorthand` (after the repair: a 'b' following a note letter is an accidental) -/
def fromShorthandGo : Str → Str → Int → (Str × Int)
  | [], name, oct => (name, oct)
  | x :: t, name, oct =>
    if x = 'b' ∧ name ≠ [] then fromShorthandGo t (name ++ [x]) oct
    else if x.isLower ∧ 'a' ≤ x ∧ x ≤ 'g' then fromShorthandGo t [x.toUpper] 3
    else if 'A' ≤ x ∧ x ≤ 'G' then fromShorthandGo t [x] 2
    else if x = '#' ∨ x = 'b' then fromShorthandGo t (name ++ [x]) oct
    else if x = ',' then fromShorthandGo t name (oct - 1)
    else if x = '\'' then fromShorthandGo t name (oct + 1)
    else fromShorthandGo t name oct
def fromShorthand (n : Note) (sh : Str) : Except Err Note :=
  let (name, oct) := fromShorthandGo sh [] 0
  setNote n name oct none none

end Note
end Mingus.Containers
