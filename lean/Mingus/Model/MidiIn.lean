import Mingus.Model.Midi
import Mingus.Model.Containers
/-
  Model of the MIDI reader: mingus/midi/midi_file_in.py.

  Two layers, as in the code: the byte parsers (`parse_midi_file_header`, `parse_track`, `parse_midi_event`,
  `parse_varbyte_as_int`), which read from one stream without regard to chunk boundaries, and `MIDI_to_Composition`,
  which turns delta times into bar entries: every non-zero delta closes the entry that is open (its value becomes the
  delta's length) and opens a new empty one; note-ons go into the open entry.

  IOError (every failure inside the reader's bare `except:` blocks) is Python 3's OSError and is canonicalised to
  `.other` by the harness.  Not modelled: SMPTE time division beyond "always rejected" (the code's frame table can never
  match), `print` side effects.
-/
namespace Mingus.MidiIn
open Mingus.Midi Mingus.Containers

/-- `bytes_to_int` on a bytes object: `int(b2a_hex(b), 16)`; the empty string is a ValueError -/
def bytesToInt (b : Bytes) : Except Err Nat :=
  if b = [] then .error .value else .ok (b.foldl (fun acc x => acc * 256 + x) 0)

/-- `fp.read(n)`: up to n bytes -/
def read (n : Nat) (s : Bytes) : Bytes × Bytes := (s.take n, s.drop n)

/-- everything raised inside `try: … except: raise IOError(…)` -/
def io {α} (r : Except Err α) : Except Err α :=
  match r with
  | .ok a => .ok a
  | .error _ => .error .other

/-- `parse_varbyte_as_int`: (value, bytes read, rest); running out of bytes is an IOError -/
def varbyte (fuel : Nat) (acc cnt : Nat) (s : Bytes) : Except Err (Nat × Nat × Bytes) :=
  match fuel, s with
  | _, [] => .error .other
  | 0, _ => .error .hang
  | f + 1, b :: rest =>
    if b ≥ 128 then varbyte f (acc * 128 + (b - 128)) (cnt + 1) rest
    else .ok (acc * 128 + b, cnt + 1, rest)

inductive PEv
  | chan (event ch p1 : Nat) (p2 : Option Nat)
  | metaE (type : Nat) (data : Bytes)
  deriving DecidableEq, Repr, Inhabited

/-- `parse_midi_event`: (event, declared size, rest) -/
def parseEvent (s : Bytes) : Except Err (PEv × Nat × Bytes) :=
  match s with
  | [] => .error .other
  | ec :: s =>
    let ty := ec / 16
    let ch := ec % 16
    if ty < 8 then .error .format
    else if ty = 15 then
      match s with
      | [] => .error .other
      | m :: s => do
        let (len, n, s) ← varbyte (s.length + 1) 0 0 s
        pure (.metaE m (s.take len), 1 + 1 + n + len, s.drop len)
    else if ty = 12 ∨ ty = 13 then
      match s with
      | [] => .error .value
      | a :: s => pure (.chan ty ch a none, 2, s)
    else
      match s with
      | [] => .error .value
      | [_] => .error .value
      | a :: b :: s => pure (.chan (if b = 0 then 8 else ty) ch a (some b), 3, s)

/-- `parse_track`: header, then delta/event pairs while the declared size is not used up -/
def parseEventsLoop : Nat → Int → Bytes → Except Err (List (Nat × PEv) × Bytes)
  | 0, _, _ => .error .hang
  | f + 1, size, s =>
    if size ≤ 0 then .ok ([], s)
    else do
      let (d, n, s) ← varbyte (s.length + 1) 0 0 s
      let (e, m, s) ← parseEvent s
      let (l, s) ← parseEventsLoop f (size - n - m) s
      pure ((d, e) :: l, s)

def parseTrack (s : Bytes) : Except Err (List (Nat × PEv) × Bytes) :=
  let (h, s) := read 4 s
  if h ≠ [77, 84, 114, 107] then .error .header
  else do
    let (sz, s) := read 4 s
    let size ← bytesToInt sz
    parseEventsLoop (s.length + 1) size s

/-- `parse_midi_file_header` (`none` = the `return False` for a chunk size below 6) -/
def parseHeader (s : Bytes) : Except Err (Option (Nat × Nat × Nat) × Bytes) :=
  let (h, s) := read 4 s
  if h ≠ [77, 84, 104, 100] then .error .other
  else do
    let (sz, s) := read 4 s
    let size ← io (bytesToInt sz)
    if size < 6 then pure (none, s)
    else do
      let (f, s) := read 2 s
      let fmt ← io (bytesToInt f)
      if fmt > 2 then .error .other
      else do
        let (n, s) := read 2 s
        let ntr ← io (bytesToInt n)
        let (d, s) := read 2 s
        let dv ← io (bytesToInt d)
        if dv ≥ 32768 then .error .other      -- SMPTE: the frame-rate table can never match
        else if (size - 6) % 2 = 1 then .error .format
        else pure (some (fmt, ntr, dv), s.drop ((size - 6) / 2))

def parseTracks : Nat → Bytes → Except Err (List (List (Nat × PEv)))
  | 0, _ => .ok []
  | k + 1, s => do
    let (t, s) ← parseTrack s
    let ts ← parseTracks k s
    pure (t :: ts)

/-- `parse_midi_file` -/
def parseFile (s : Bytes) : Except Err ((Nat × Nat × Nat) × List (List (Nat × PEv))) := do
  let (h, s) ← parseHeader s
  match h with
  | none => .error .type          -- `header[1]` on False
  | some (fmt, ntr, dv) => do
    let ts ← parseTracks ntr s
    pure ((fmt, ntr, dv), ts)

/-! ### MIDI_to_Composition -/

structure RTrack where
  name : Str := lit "Untitled"
  instr : Option Nat := none
  bars : List Bar := []
  deriving Repr, DecidableEq

structure RState where
  t : RTrack := {}
  b : Bar := {}
  meter : Int × Rat := (4, 4)
  key : Str := lit "C"
  bpm : Int
  deriving Repr

def emptyNC : Option NC := some []

/-- the first half of a non-zero delta: the open entry gets this length (with the beat counter corrected); on an
    empty bar the elapsed time is placed as a rest -/
def closeOpen (b : Bar) (dur : Rat) : Bar :=
  match b.entries.getLast? with
  | some last =>
    let es := b.entries.dropLast ++ [{ last with value := dur }]
    if F64.sub last.value dur ≠ 0 then
      { b with entries := es, current := F64.add (F64.sub b.current (F64.div 1 last.value)) (F64.div 1 dur) }
    else { b with entries := es }
  | none => (b.place emptyNC dur).2

/-- a non-zero delta: close the open entry with this length (or, on an empty bar, place the elapsed time as a rest),
    then open a new entry — in a new bar if this one has no room -/
def onDelta (st : RState) (dur : Rat) : Except Err RState :=
  let b := closeOpen st.b dur
  if (b.place emptyNC dur).1 then pure { st with b := (b.place emptyNC dur).2 }
  else do
    let nb ← Bar.new st.key st.meter.1 st.meter.2
    pure { st with t := { st.t with bars := st.t.bars ++ [b] }, b := (nb.place emptyNC dur).2 }

def signedByte (x : Nat) : Int := if x > 127 then (x : Int) - 256 else x

/-- the Note of a note-on event: sharp spelling of the pitch class, octave `pitch // 12 - 1` -/
def noteOf (ch p1 p2 : Nat) : Except Err Note := do
  let nm ← Notes.intToNote ((p1 % 12 : Nat) : Int) ['#']
  pure ⟨nm, ((p1 / 12 : Nat) : Int) - 1, ch, p2⟩

/-- a note-on: into the open entry, or (empty bar) a new entry of one beat unit holding it -/
def addOn (st : RState) (n : Note) : Except Err RState :=
  match st.b.entries.getLast? with
  | some last =>
    match last.content with
    | some nc => pure { st with b := { st.b with entries := st.b.entries.dropLast ++ [{ last with content := some (NC.addNoteObj nc n) }] } }
    | none => .error .type
  | none => pure { st with b := (st.b.plus (some [n])).2 }

def onEvent (st : RState) (e : PEv) : Except Err RState :=
  match e with
  | .chan 9 ch p1 (some p2) => do
    let n ← noteOf ch p1 p2
    addOn st n
  | .chan 12 _ p1 _ => pure { st with t := { st.t with instr := some p1 } }
  | .chan _ _ _ _ => pure st
  | .metaE 3 d => if d.any (· ≥ 128) then .error .other else pure { st with t := { st.t with name := d.map Char.ofNat } }
  | .metaE 81 d => do
    let mpqn ← bytesToInt d
    if mpqn = 0 then .error .zeroDiv else pure { st with bpm := (60000000 : Int) / mpqn }
  | .metaE 88 d =>
    match d with
    | n :: dl :: _ :: _ :: _ => do
      let b ← st.b.setMeter n ((2 : Rat) ^ dl)
      pure { st with meter := (n, (2 : Rat) ^ dl), b := b }
    | _ => .error .index
  | .metaE 89 d =>
    match d with
    | sf :: mi :: _ => do
      let couple ← Keys.getKey (signedByte sf)
      let key := if mi ≠ 0 then couple.2 else couple.1
      pure { st with key := key, b := { st.b with key := key } }
    | _ => .error .index
  | .metaE _ _ => pure st

def step (tpb : Nat) (st : RState) (de : Nat × PEv) : Except Err RState := do
  if tpb = 0 then .error .zeroDiv
  else
    let duration := F64.div de.1 (F64.mul tpb 4)
    let st ← if duration ≠ 0 then onDelta st (F64.div 1 duration) else pure st
    onEvent st de.2

def readTrack (tpb : Nat) (bpm : Int) (evs : List (Nat × PEv)) : Except Err (RTrack × Int) := do
  let st ← evs.foldlM (step tpb) { bpm := bpm }
  pure ({ st.t with bars := st.t.bars ++ [st.b] }, st.bpm)

def readTracks (tpb : Nat) : Int → List (List (Nat × PEv)) → Except Err (List RTrack × Int)
  | bpm, [] => .ok ([], bpm)
  | bpm, t :: ts => do
    let (r, bpm) ← readTrack tpb bpm t
    let (rs, bpm) ← readTracks tpb bpm ts
    pure (r :: rs, bpm)

/-- `MIDI_to_Composition` on the bytes of a file -/
def readBytes (s : Bytes) : Except Err (List RTrack × Int) := do
  let ((_, _, dv), ts) ← parseFile s
  readTracks dv 120 ts

end Mingus.MidiIn
