import Mingus.Model.Keys
import Mingus.Model.Note
import Mingus.Model.Float
/-
  Model of the MIDI writer: mingus/midi/midi_track.py (MidiTrack) and mingus/midi/midi_file_out.py (MidiFile, write_*).

  `track_data` is modelled as the list of events appended so far, each with the delta time that was pending when it was
  appended (every `self.track_data += …` appends exactly one event); the bytes are the concatenation of the serialised
  events.  The pending delta is *not* consumed by an event — exactly as in the code — so that the "every event is
  preceded by a set_deltatime" discipline is something the theorems establish, not something the model assumes.

  Not modelled: NoteContainers carrying a `bpm` attribute (mid-bar tempo changes), non-ASCII track names, and the float
  `log` calls, which are replaced by the exact integer logarithm (tied by the correspondence: `midi.vlq` over every
  boundary and a dense range, `midi.write` over meters 1 … 128).
-/
namespace Mingus.Midi
open Mingus.Containers (Note)

abbrev Bytes := List Nat

/-! ### variable-length quantity (`int_to_varbyte`) -/

/-- `int(log(max(value, 1), 0x80)) + 1`: the number of base-128 digits -/
def vlqLen (n : Nat) : Nat := if n < 128 then 1 else vlqLen (n / 128) + 1
termination_by n
decreasing_by omega

def toVarbyte (n : Nat) : Bytes :=
  let digits := (List.range (vlqLen n)).map fun i => (n >>> (i * 7)) % 128
  let r := digits.reverse
  r.dropLast.map (· + 128) ++ r.drop (r.length - 1)

/-- `a2b_hex("%0{2k}x" % n)` for n < 256^k -/
def be (k n : Nat) : Bytes := (List.range k).reverse.map fun i => (n / 256 ^ i) % 256

/-! ### events -/

inductive Ev
  | chan2 (kind ch p1 p2 : Nat)
  | chan1 (kind ch p1 : Nat)
  | metaE (type : Nat) (data : Bytes)
  deriving DecidableEq, Repr, Inhabited

def Ev.bytes : Ev → Bytes
  | .chan2 k c a b => [c + 16 * k, a, b]
  | .chan1 k c a => [c + 16 * k, a]
  | .metaE t d => [255, t] ++ toVarbyte d.length ++ d

structure TEv where
  delta : Nat
  ev : Ev
  deriving DecidableEq, Repr, Inhabited

def TEv.bytes (e : TEv) : Bytes := toVarbyte e.delta ++ e.ev.bytes

def serialise (l : List TEv) : Bytes := l.flatMap TEv.bytes

/-! ### MidiTrack -/

structure MT where
  evs : List TEv := []
  pending : Nat := 0
  delay : Nat := 0
  changeInstr : Bool := false
  instr : Int := 1
  deriving DecidableEq, Repr, Inhabited

namespace MT

def emit (t : MT) (e : Ev) : MT := { t with evs := t.evs ++ [⟨t.pending, e⟩] }
def setDelta (t : MT) (d : Nat) : MT := { t with pending := d }

def in7 (x : Int) : Bool := 0 ≤ x ∧ x ≤ 127

/-- `midi_event` with two parameters: the four assertions, then the event with the pending delta -/
def chan2 (t : MT) (kind : Nat) (ch p1 p2 : Int) : Except Err MT :=
  if 0 ≤ ch ∧ ch < 16 ∧ in7 p1 ∧ in7 p2 then .ok (t.emit (.chan2 kind ch.toNat p1.toNat p2.toNat)) else .error .other
def chan1 (t : MT) (kind : Nat) (ch p1 : Int) : Except Err MT :=
  if 0 ≤ ch ∧ ch < 16 ∧ in7 p1 then .ok (t.emit (.chan1 kind ch.toNat p1.toNat)) else .error .other

/-- `set_tempo_event`: 60000000 // bpm in three bytes -/
def setTempo (t : MT) (bpm : Int) : Except Err MT :=
  if bpm = 0 then .error .zeroDiv
  else
    let mpqn := (60000000 : Int) / bpm   -- floor division; Int./ is T-rounding in Lean core? see `fdiv` below
    if 0 ≤ mpqn ∧ mpqn < 16777216 ∧ bpm > 0 then .ok (t.emit (.metaE 81 (be 3 mpqn.toNat))) else .error .other

def init (bpm : Int) : Except Err MT := setTempo {} bpm

/-- ⌊log₂ n⌋ for n ≥ 1 (the code computes `int(log(n, 2))` in floating point) -/
def ilog2 (n : Nat) : Nat := Nat.log2 n

def setMeter (t : MT) (count unit : Int) : Except Err MT :=
  if 0 ≤ count ∧ count < 256 ∧ 1 ≤ unit then .ok (t.emit (.metaE 88 [count.toNat, ilog2 unit.toNat, 24, 8])) else .error .other

def isLowerChar (c : Char) : Bool := 'a'.toNat ≤ c.toNat ∧ c.toNat ≤ 'z'.toNat
def isUpperChar (c : Char) : Bool := 'A'.toNat ≤ c.toNat ∧ c.toNat ≤ 'Z'.toNat
/-- `str.islower` on ASCII -/
def isLower (k : Str) : Bool := k.any isLowerChar && !k.any isUpperChar

def idxOf? (l : List Str) (k : Str) : Option Nat :=
  let i := l.findIdx (· == k)
  if i < l.length then some i else none

/-- `key_signature_event`: index in the circle of fifths − 7 as a signed byte, then the mode flag -/
def setKey (t : MT) (key : Str) : Except Err MT :=
  let minor := isLower key
  match idxOf? (if minor then Keys.minorKeys else Keys.majorKeys) key with
  | none => .error .value
  | some i =>
    let v : Int := (i : Int) - 7
    let b : Nat := if v < 0 then (256 + v).toNat else v.toNat
    .ok (t.emit (.metaE 89 [b, if minor then 1 else 0]))

def setInstrument (t : MT) (ch : Int) : Except Err MT := do
  let t ← t.chan2 11 ch 0 1
  let t := t.setDelta 0
  t.chan1 12 ch t.instr

def playNote (t : MT) (n : Note) : Except Err MT := do
  let t ← if t.changeInstr then do
      let t ← t.setInstrument n.channel
      pure { t with changeInstr := false, pending := 0 }
    else pure t
  if ¬ (0 ≤ n.velocity ∧ n.velocity ≤ 127) then .error .other
  else do
    let p ← n.toInt
    t.chan2 9 n.channel (p + 12) n.velocity

def stopNote (t : MT) (n : Note) : Except Err MT := do
  let p ← n.toInt
  t.chan2 8 n.channel (p + 12) n.velocity

def playNC (t : MT) : List Note → Except Err MT
  | [] => .ok t
  | [n] => t.playNote n
  | n :: rest => do
    let t ← t.playNote n
    rest.foldlM playNote (t.setDelta 0)

def stopNC (t : MT) : List Note → Except Err MT
  | [] => .ok t
  | [n] => t.stopNote n
  | n :: rest => do
    let t ← t.stopNote n
    rest.foldlM stopNote (t.setDelta 0)

end MT

/-- Python 3 `round` of a rational: nearest integer, ties to even -/
def pyRound (q : Rat) : Int :=
  let fl := q.floor
  let frac := q - fl
  if frac > 1/2 then fl + 1 else if frac < 1/2 then fl else (if fl % 2 = 0 then fl else fl + 1)

/-- `int(round((1.0 / value) * 288))` in double arithmetic -/
def tickOf (v : Rat) : Nat := (pyRound (F64.mul (F64.div 1 v) 288)).toNat

structure MEntry where
  value : Rat
  notes : List Note      -- `None` and the empty container are both rests: []
  bpm : Option Int := none   -- a `bpm` attribute on the container: tempo change where the container starts
  deriving DecidableEq, Repr, Inhabited

structure MBar where
  key : Str
  count : Int
  unit : Int
  entries : List MEntry
  deriving DecidableEq, Repr, Inhabited

structure MTrack where
  name : Str
  instr : Option Int     -- `instrument_nr` when the track's instrument has one
  bars : List MBar
  deriving DecidableEq, Repr, Inhabited

namespace MT

def playEntry (t : MT) (e : MEntry) : Except Err MT :=
  if e.value = 0 then .error .zeroDiv
  else
    let tick := tickOf e.value
    if e.notes = [] then .ok { t with delay := t.delay + tick }
    else do
      let t := { t with pending := t.delay, delay := 0 }
      let t ← (match e.bpm with
        | some b => do let t ← t.setTempo b; pure (t.setDelta 0)     -- the tempo event takes the pending delta (the rest)
        | none => pure t)
      let t ← t.playNC e.notes
      let t := t.setDelta tick
      t.stopNC e.notes

def playBar (t : MT) (b : MBar) : Except Err MT := do
  let t := { t with pending := t.delay, delay := 0 }
  let t ← t.setMeter b.count b.unit
  let t := t.setDelta 0
  let t ← t.setKey b.key
  b.entries.foldlM playEntry t

def asciiBytes (x : Str) : Bytes := x.map Char.toNat

def playTrack (t : MT) (tr : MTrack) : Except Err MT := do
  let t := { t with evs := t.evs ++ [⟨0, .metaE 3 (asciiBytes tr.name)⟩] }
  let t := match tr.instr with
    | some nr => { t with changeInstr := true, instr := nr }
    | none => t
  tr.bars.foldlM playBar t

/-- `header() + track_data + end_of_track()` -/
def chunk (t : MT) : Bytes :=
  let d := serialise t.evs
  [77, 84, 114, 107] ++ be 4 (d.length + 4) ++ d ++ [0, 255, 47, 0]

end MT

/-- `MidiFile.get_midi_data` -/
def fileBytes (ts : List MT) : Bytes :=
  [77, 84, 104, 100, 0, 0, 0, 6, 0, 1] ++ be 2 ts.length ++ [0, 72] ++ ts.flatMap MT.chunk

/-- run `f` `repeat + 1` times (`while repeat >= 0`) -/
def repeatM (f : MT → Except Err MT) : Nat → MT → Except Err MT
  | 0, t => .ok t
  | k + 1, t => do let t ← f t; repeatM f k t

def times (rep : Int) : Nat := if rep < 0 then 0 else rep.toNat + 1

/-- one pass of write_Note / write_NoteContainer: on with delta 0, off 72 ticks later -/
def notePass (n : Note) (t : MT) : Except Err MT := do
  let t ← (t.setDelta 0).playNote n
  (t.setDelta 72).stopNote n

def lonePass (ns : List Note) (t : MT) : Except Err MT := do
  let t ← (t.setDelta 0).playNC ns
  (t.setDelta 72).stopNC ns

def writeNote (n : Note) (bpm rep : Int) : Except Err Bytes := do
  let t ← MT.init bpm
  let t ← repeatM (notePass n) (times rep) t
  pure (fileBytes [t])

def writeNC (ns : List Note) (bpm rep : Int) : Except Err Bytes := do
  let t ← MT.init bpm
  let t ← repeatM (lonePass ns) (times rep) t
  pure (fileBytes [t])

def writeBar (b : MBar) (bpm rep : Int) : Except Err Bytes := do
  let t ← MT.init bpm
  let t ← repeatM (fun t => t.playBar b) (times rep) t
  pure (fileBytes [t])

/-- one MidiTrack: tempo, then `repeat + 1` passes of play_Track -/
def trackOf (tr : MTrack) (bpm rep : Int) : Except Err MT := do
  let t ← MT.init bpm
  repeatM (fun t => t.playTrack tr) (times rep) t

def writeTrack (tr : MTrack) (bpm rep : Int) : Except Err Bytes := do
  let t ← trackOf tr bpm rep
  pure (fileBytes [t])

/-- `write_Composition`: the repeat loop is outermost, but the tracks are independent, so this is per track -/
def writeComposition (trs : List MTrack) (bpm rep : Int) : Except Err Bytes := do
  let ts ← trs.mapM fun tr => trackOf tr bpm rep
  pure (fileBytes ts)

end Mingus.Midi
