import Mingus.Model.Basic
import Mingus.Model.Float
/- Model of mingus/core/value.py and mingus/core/meter.py over exact rationals.
   Every finite double is a rational; `value.determine` only scales by powers of two and compares with constants,
   so with the constants' exact dyadic values the rational model *is* the float function (no approximation).
   The float-valued constructors (`dots`) are modelled by the doubles they produce on the value vocabulary. -/
namespace Mingus.Value

/-- `base_values` -/
def baseValues : List Rat := [1/4, 1/2, 1, 2, 4, 8, 16, 32, 64, 128]

/-- the float thresholds of `determine` as the exact values of the doubles `0.9375, 0.8125, 17/24.0, 31/48.0, 67/112.0` -/
def thrBase : Rat := 15/16
def thrSeptuplet : Rat := 13/16
def thrTriplet : Rat := (6380099472108203 : Rat) / 9007199254740992
def thrDotted : Rat := (5817149518686891 : Rat) / 9007199254740992
def thrQuintuplet : Rat := (5388235268461129 : Rat) / 9007199254740992
/-- the doubles `2.0**x / d` for x = 2, 3, 4 (d = 7, 15, 31): multi-dot fingerprints -/
def dotFingerprints : List (Nat × Rat) :=
  [(2, (2573485501354569 : Rat) / 4503599627370496), (3, (4803839602528529 : Rat) / 9007199254740992),
   (4, (1162219258676257 : Rat) / 2251799813685248)]

/-- Python list indexing with a possibly negative index -/
def pyGet (l : List Rat) (i : Int) : Option Rat :=
  if i ≥ 0 then l[i.toNat]? else if -i ≤ l.length then l[(l.length - (-i).toNat)]? else none

def pow2 (i : Int) : Rat := if i ≥ 0 then (2 : Rat) ^ i.toNat else 1 / (2 : Rat) ^ (-i).toNat

def baseAt (j : Int) : Except Err Rat := match pyGet baseValues j with | some x => .ok x | none => .error .index

/-- the if/elif chain of `determine` once the loop variables `v`, `i` and `scaled` are known -/
def classify (v : Rat) (i : Int) (scaled : Rat) : Except Err (Rat × Nat × Nat × Nat) :=
  if scaled ≥ thrBase then .ok (v, 0, 1, 1)
  else if scaled ≥ thrSeptuplet then (baseAt (i + 1)).map fun b => (b, 0, 7, 4)
  else if scaled ≥ thrTriplet then (baseAt (i + 1)).map fun b => (b, 0, 3, 2)
  else if scaled ≥ thrDotted then .ok (v, 1, 1, 1)
  else if scaled ≥ thrQuintuplet then (baseAt (i + 1)).map fun b => (b, 0, 5, 4)
  else match dotFingerprints.find? (fun r => scaled == r.2) with
    | some r => .ok (v, r.1, 1, 1)
    | none => (baseAt (i + 1)).map fun b => (b, 0, 1, 1)

/-- `value.determine(value)` : (base value, dots, ratio numerator, ratio denominator) -/
def determine (value : Rat) : Except Err (Rat × Nat × Nat × Nat) :=
  if baseValues.contains value then .ok (value, 0, 1, 1)
  else
    let k := (baseValues.findIdx? (fun v => value < v)).getD baseValues.length
    let i : Int := (k : Int) - 2
    let v := (baseValues[k]?).getD 128
    classify v i (value / pow2 i)

/-- the double produced by `0.5 / (1.0 - 0.5 ** (nr + 1))` for nr = 0..4; `dots(value, nr)` on a power-of-two value is
    exactly `value` times this constant (power-of-two scaling commutes with rounding) -/
def dotConst : List Rat :=
  [1, (6004799503160661 : Rat) / 9007199254740992, (2573485501354569 : Rat) / 4503599627370496,
   (4803839602528529 : Rat) / 9007199254740992, (1162219258676257 : Rat) / 2251799813685248]
def dotsF (value : Rat) (nr : Nat) : Rat := value * dotConst.getD nr 0
/-- `tuplet(value, r1, r2)`; exact in floating point for the vocabulary (small integers times powers of two) -/
def tuplet (value : Rat) (r1 r2 : Nat) : Rat := r1 * value / r2

/-- exact-arithmetic readings of `add`, `subtract`, `dots` -/
def add (a b : Rat) : Rat := 1 / (1 / a + 1 / b)
def subtract (a b : Rat) : Rat := 1 / (1 / a - 1 / b)

/-- `add` / `subtract` as the code computes them, in double arithmetic: `1 / (1.0 / a ± 1.0 / b)`, every operation rounded;
    a zero operand or a zero sum is a ZeroDivisionError -/
def addF (a b : Rat) : Except Err Rat :=
  if a = 0 ∨ b = 0 then .error .zeroDiv
  else
    let s := F64.add (F64.div 1 a) (F64.div 1 b)
    if s = 0 then .error .zeroDiv else .ok (F64.div 1 s)
def subtractF (a b : Rat) : Except Err Rat :=
  if a = 0 ∨ b = 0 then .error .zeroDiv
  else
    let s := F64.sub (F64.div 1 a) (F64.div 1 b)
    if s = 0 then .error .zeroDiv else .ok (F64.div 1 s)
def dotsExact (value : Rat) (nr : Nat) : Rat := value / 2 / (1 - 1 / (2 : Rat) ^ (nr + 1))

/-! ### meter -/
/-- numeric inputs of the meter predicates -/
inductive Num
  | rat (q : Rat)
  | nan | posInf | negInf
  deriving DecidableEq, Repr

/-- the halving loop on a positive integer: `while r > 1: if r % 2 != 0: return False; r /= 2` then `r == 1` -/
def halve : Nat → Nat → Bool
  | 0, n => n == 1
  | f+1, n => if n > 1 then (if n % 2 != 0 then false else halve f (n / 2)) else n == 1

/-- `valid_beat_duration` -/
def validBeat : Num → Bool
  | .nan => false | .posInf => false | .negInf => false
  | .rat q =>
    if q = 0 then false
    else if q = 1 then true
    else if q > 1 then (if q.den = 1 then halve q.num.toNat q.num.toNat else false)
    else false

/-- `is_valid`, `is_compound`, `is_asymmetrical` (`is_simple` is `is_valid`) for an integer count -/
def isValid (count : Int) (beat : Num) : Bool := decide (count > 0) && validBeat beat
def isCompound (count : Int) (beat : Num) : Bool := isValid count beat && count % 3 == 0 && decide (6 ≤ count)
def isAsymmetrical (count : Int) (beat : Num) : Bool := isValid count beat && count % 2 == 1

end Mingus.Value
