import Mingus.Model.Progressions
/- Explicit-heap models for C15: the memo tables (cells with identities; results are either fresh copies or references to
   the cached cell), class attributes vs instance attributes, and the frequency-table lookup with position memory. -/
namespace Mingus.Alias
open Mingus

/-! ### memo machine -/
/-- a result is a list of rows (one row for flat results) -/
abbrev Rows := List (List Str)

inductive Query
  | getNotes (k : Str)
  | triads (k : Str)
  | sevenths (k : Str)
  | func (name k : Str)              -- tonic … VII7: one row of the triads / sevenths table
  | toChords (numeral k : Str)
  deriving DecidableEq, Repr

/-- what the query denotes, independent of any state (the model functions of C04/C06/C08) -/
def pureAnswer : Query → Except Err Rows
  | .getNotes k => (Keys.getNotes k).map fun l => [l]
  | .triads k => Chords.triads k
  | .sevenths k => Chords.sevenths k
  | .func name k => (Chords.chordFunction name k).map fun l => [l]
  | .toChords n k => Progressions.toChords [n] k

/-- which memo table (if any) a query reads: (table id, key) -/
def memoKey : Query → Option (Nat × Str)
  | .getNotes k => some (0, k)
  | .triads k => some (1, k)
  | .sevenths k => some (2, k)
  | .func name k => (Chords.functionTable.lookup name).map fun r => (if r.1 then 2 else 1, k)
  | .toChords _ k => some (1, k)     -- reads triads/sevenths through the function table; keyed per table below

structure Heap where
  store : List (Nat × Rows) := []           -- contents of every cell ever allocated
  cache : List ((Nat × Str) × Nat) := []    -- memo tables: (table, key) ↦ cell
  handed : List Nat := []                   -- cells the caller holds, in the order they were returned
  next : Nat := 0
  deriving Repr

def Heap.read (h : Heap) (c : Nat) : Rows := (h.store.lookup c).getD []
def Heap.write (h : Heap) (c : Nat) (v : Rows) : Heap := { h with store := (c, v) :: h.store.filter (·.1 != c) }
def Heap.alloc (h : Heap) (v : Rows) : Heap × Nat := ({ h with store := (h.next, v) :: h.store, next := h.next + 1 }, h.next)

/-- the table value a memoised query is computed from (whole table for triads/sevenths, the key's notes for get_notes) -/
def tableValue (t : Nat) (k : Str) : Except Err Rows :=
  if t = 0 then (Keys.getNotes k).map fun l => [l] else if t = 1 then Chords.triads k else Chords.sevenths k

/-- project a query's answer out of its table's value -/
def project (q : Query) (table : Rows) : Except Err Rows :=
  match q with
  | .func name _ => match Chords.functionTable.lookup name with
    | some (_, i) => match table[i]? with | some r => .ok [r] | none => .error .index
    | none => .error .key
  | _ => .ok table

inductive Call
  | query (q : Query)
  | callerAppend (i : Nat) (row : Nat) (x : Str)       -- the caller appends to row `row` of the i-th result it was handed
  | callerSet (i : Nat) (row j : Nat) (x : Str)        -- … or overwrites element j
  | callerDropRow (i : Nat)                            -- … or deletes the first row
  deriving Repr

def mutateRows (rows : Rows) : Call → Rows
  | .callerAppend _ r x => rows.mapIdx fun j row => if j = r then row ++ [x] else row
  | .callerSet _ r j x => rows.mapIdx fun a row => if a = r then row.mapIdx (fun b y => if b = j then x else y) else row
  | .callerDropRow _ => rows.drop 1
  | .query _ => rows

/-- hand a fresh copy of `v` to the caller -/
def Heap.hand (h : Heap) (v : Rows) : Heap :=
  { store := (h.next, v) :: h.store, cache := h.cache, handed := h.handed ++ [h.next], next := h.next + 1 }
/-- store a freshly computed table in the memo -/
def Heap.memo (h : Heap) (t : Nat) (k : Str) (table : Rows) : Heap :=
  { store := (h.next, table) :: h.store, cache := ((t, k), h.next) :: h.cache, handed := h.handed, next := h.next + 1 }
/-- hand out a cell that already exists (the unrepaired code: the cached list itself) -/
def Heap.handRef (h : Heap) (c : Nat) : Heap := { h with handed := h.handed ++ [c] }

def callIndex : Call → Nat
  | .callerAppend i _ _ => i | .callerSet i _ _ _ => i | .callerDropRow i => i | .query _ => 0

/-- a memoised query: look the table up (or compute and store it), project the answer, hand it out -/
def memoStep (fresh : Bool) (h : Heap) (q : Query) : Heap × Except Err Rows :=
  match memoKey q with
  | none => (h, .error .key)
  | some (t, k) =>
    match h.cache.lookup (t, k) with
    | some cell =>
      (match project q (h.read cell) with
       | .error e => (h, .error e)
       | .ok ans => (if fresh then h.hand ans else h.handRef cell, .ok ans))
    | none =>
      match tableValue t k with
      | .error e => (h, .error e)
      | .ok table =>
        (match project q table with
         | .error e => (h.memo t k table, .error e)
         | .ok ans => (if fresh then (h.memo t k table).hand ans else (h.memo t k table).handRef h.next, .ok ans))

/-- one step; `fresh = true`: results are copies (the repaired code); `fresh = false`: the cached cell itself is handed out -/
def step (fresh : Bool) (h : Heap) (c : Call) : Heap × Except Err Rows :=
  match c with
  | .query q =>
    (match q with
     | .toChords n k =>
       (match pureAnswer (.toChords n k) with
        | .error e => (h, .error e)
        | .ok v => (h.hand v, .ok v))
     | _ => memoStep fresh h q)
  | _ =>
    match h.handed[callIndex c]? with
    | none => (h, .ok [])
    | some cell => (h.write cell (mutateRows (h.read cell) c), .ok [])

def run (fresh : Bool) (calls : List Call) : Heap × List (Except Err Rows) :=
  calls.foldl (fun (acc : Heap × List (Except Err Rows)) c => let r := step fresh acc.1 c; (r.1, acc.2 ++ [r.2])) ({}, [])

/-! ### class attributes vs instance attributes -/
structure FieldInfo where
  name : Str
  mutableDefault : Bool      -- the class-level default is a list / dict
  rebound : Bool             -- `__init__` (directly or through a self.method it calls) assigns self.<name>
  mutatedInPlace : Bool      -- some method appends to / assigns into / sorts … self.<name>
  deriving DecidableEq, Repr

structure ClassInfo where
  name : Str
  fields : List FieldInfo
  deriving DecidableEq, Repr

/-- a field is safe unless instances can mutate the shared class-level object -/
def FieldInfo.safe (f : FieldInfo) : Bool := !(f.mutableDefault && f.mutatedInPlace) || f.rebound
def ClassInfo.safe (c : ClassInfo) : Bool := c.fields.all FieldInfo.safe

/-- Python attribute lookup for one list-valued field: instance dict, else the class attribute -/
structure Obj where
  classCell : List Str                 -- the class-level default object
  inst : List (Option (List Str))      -- per instance: its own object if `__init__` rebound the field
  deriving Repr

def Obj.create (o : Obj) (rebound : Bool) : Obj := { o with inst := o.inst ++ [if rebound then some [] else none] }
def Obj.read (o : Obj) (i : Nat) : List Str := match o.inst[i]? with | some (some v) => v | _ => o.classCell
/-- `self.field.append(x)` on instance i -/
def Obj.append (o : Obj) (i : Nat) (x : Str) : Obj :=
  match o.inst[i]? with
  | some (some v) => { o with inst := o.inst.set i (some (v ++ [x])) }
  | some none => { o with classCell := o.classCell ++ [x] }
  | none => o

inductive InstOp
  | create
  | append (i : Nat) (x : Str)

def instStep (rebound : Bool) (o : Obj) : InstOp → Obj
  | .create => o.create rebound
  | .append i x => o.append i x

/-! ### fft: frequency-table lookup with position memory -/
/-- stateless answer: the first index n with f ≤ table[n] (128 when f is out of range); table strictly increasing, positive -/
def lookupPure (table : List Rat) (f : Rat) : Nat :=
  if f ≤ 0 then 128 else match table.findIdx? (fun c => f ≤ c) with
    | some n => if n ≤ 127 then n else 128
    | none => 128

/-- the binary search of `_find_log_index` from (begin, end) -/
def bsearch (table : List Rat) (f : Rat) : Nat → Nat → Nat → Nat × Bool
  | 0, b, _ => (b, false)
  | fuel+1, b, e =>
    if b = e then (b, true)
    else
      let n := (b + e) / 2
      let c := table.getD n 0
      let cp := if n ≠ 0 then table.getD (n - 1) 0 else 0
      if cp < f ∧ f ≤ c then (n, true)
      else if f < c then bsearch table f fuel b n
      else bsearch table f fuel n e

/-- `_find_log_index(f)` with its `_last_asked` memory: (answer, new memory) -/
def lookupMem (table : List Rat) (mem : Option (Nat × Rat)) (f : Rat) : Nat × Option (Nat × Rat) :=
  let viaSearch (b : Nat) : Nat × Option (Nat × Rat) :=
    if f > table.getD 127 0 ∨ f ≤ 0 then (128, mem)
    else let r := bsearch table f 200 b 128; (r.1, some (r.1, f))
  match mem with
  | some (lastn, lastval) =>
    if f ≥ lastval then
      if f ≤ table.getD lastn 0 then (lastn, some (lastn, f))
      else if lastn + 1 < table.length ∧ f ≤ table.getD (lastn + 1) 0 then (lastn + 1, some (lastn + 1, f))
      else viaSearch lastn
    else viaSearch 0
  | none => viaSearch 0

end Mingus.Alias
