import Mingus.Model.Tunings
/-
  Model of mingus/extra/tablature.py: begin_track, from_Note, from_NoteContainer, from_Bar, from_Track,
  from_Composition with add_headers, and the layout helpers _get_qsize / _get_width.  Lines are lists of characters,
  a rendering is a list of lines (joined with os.linesep by the code; the harness splits them again).
  Notes carry no forced string/fret attributes (not modelled).
-/
namespace Mingus.Tab
open Mingus.Containers Mingus.Tun

abbrev Line := Str

def rep (c : Char) (n : Int) : Str := List.replicate n.toNat c      -- `"c" * n` (empty for n ≤ 0)

/-- Python's `<` on strings (code points, shorter prefix first) -/
def strLt : Str → Str → Bool
  | [], [] => false
  | [], _ :: _ => true
  | _ :: _, [] => false
  | a :: as, b :: bs => a.toNat < b.toNat || (a == b && strLt as bs)

/-- `max(names)` -/
def maxStr (l : List Str) : Str := l.foldl (fun m x => if strLt m x then x else m) (l.headD [])

/-- the Helmholtz labels of the strings; a course cannot be labelled (`list` has no `to_shorthand`) -/
def labels (t : Tuning) : Except Err (List Str) :=
  t.mapM fun s => match s with
    | .one n => .ok n.toShorthand
    | .course _ => .error .attr

def baseSize (names : List Str) : Except Err Int :=
  if names = [] then .error .value else .ok ((maxStr names).length + 3)

/-- `begin_track(tuning, padding)` -/
def beginTrack (t : Tuning) (padding : Int) : Except Err (List Line) := do
  let names ← labels t
  let bs ← baseSize names
  pure (names.map fun x =>
    let r := ' ' :: x
    r ++ rep ' ' (bs - r.length) ++ lit "||" ++ rep '-' padding)

/-- a fret number centred in `w` columns, closed by `|` -/
def centred (fret : Str) (w : Int) : Line :=
  let d := w - fret.length
  rep '-' (d / 2) ++ fret ++ rep '-' ((w - d / 2) - fret.length) ++ lit "|"

def defaultTuning : Tuning :=
  [.one ⟨lit "E", 2, 1, 64⟩, .one ⟨lit "A", 2, 1, 64⟩, .one ⟨lit "D", 3, 1, 64⟩, .one ⟨lit "G", 3, 1, 64⟩,
   .one ⟨lit "B", 3, 1, 64⟩, .one ⟨lit "E", 4, 1, 64⟩]

/-- `from_Note(note, width, tuning)` -/
def fromNote (t : Tuning) (note : Note) (width : Int) : Except Err (List Line) := do
  let result ← beginTrack t 2
  let frets ← findFrets t note 24
  let best := (List.zip (List.range frets.length) frets).foldl (fun (acc : Int × Option (Nat × Int)) (sf : Nat × Option Int) =>
    match sf.2 with
    | some f => if f < acc.1 then (f, some (sf.1, f)) else acc
    | none => acc) (1000, none)
  let l : Int := (result.headD []).length
  let w := max 4 ((width - l) - 1)
  match best.2 with
  | none => .error .range
  | some (s, f) =>
    pure ((List.zip (List.range result.length) result).map (fun (i, ln) =>
      if i ≠ s then ln ++ rep '-' w ++ lit "|" else ln ++ centred (Note.showInt f) w)).reverse

/-- the drawing step of `from_Note`: the fret number centred on string `s`, dashes on every other string -/
def drawNote (result : List Line) (s : Nat) (f : Int) (w : Int) : List Line :=
  ((List.zip (List.range result.length) result).map (fun (i, ln) =>
    if i ≠ s then ln ++ rep '-' w ++ lit "|" else ln ++ centred (Note.showInt f) w)).reverse

/-- `from_Note` on a note that carries `string` / `fret` attributes: when the tuning sounds exactly this note there, that
    position is drawn; otherwise the lowest fret is searched as for any other note -/
def fromNotePinned (t : Tuning) (note : Note) (ps pf : Int) (width : Int) : Except Err (List Line) := do
  let result ← beginTrack t 2
  let n ← getNote t ps pf 24
  let ni ← n.toInt
  let mi ← note.toInt
  if ni = mi then
    let l : Int := (result.headD []).length
    let w := max 4 ((width - l) - 1)
    pure (drawNote result ps.toNat pf w)
  else fromNote t note width

/-- `from_NoteContainer(notes, width, tuning)` -/
def fromNC (t : Tuning) (notes : NC) (width : Int) : Except Err (List Line) := do
  let result ← beginTrack t 2
  let l : Int := (result.headD []).length
  let w := max 4 ((width - l) - 1)
  let fingerings ← findFingering t notes 4
  match fingerings with
  | [] => .error .finger
  | f :: _ =>
    pure ((List.zip (List.range result.length) result).map (fun (i, ln) =>
      match (f.reverse.find? (·.1 == i)) with     -- a dict: the last assignment to a string wins
      | none => ln ++ rep '-' w ++ lit "|"
      | some (_, fr) => ln ++ centred (Note.showInt fr) w)).reverse

/-- `_get_qsize(tuning, width)` -/
def qSize (t : Tuning) (width : Int) : Except Err Int := do
  let names ← labels t
  let bs ← baseSize names
  let barsize := ((width - bs) - 2) - 1
  pure (if barsize < 0 then 0 else (barsize * 2) / 9)        -- max(0, int(barsize / 4.5))

/-- `_get_width(maxwidth)` -/
def getWidth (maxwidth : Int) : Int :=
  if maxwidth ≤ 60 then maxwidth else if maxwidth ≤ 120 then maxwidth / 2 else maxwidth / 3

def rjust (x : Str) (n : Nat) : Str := List.replicate (n - x.length) ' ' ++ x

/-- `int(((1.0 / v) * qsize) * 4)` in double arithmetic, truncated -/
def columns (v : Rat) (qsize : Int) : Int :=
  let x := F64.mul (F64.mul (F64.div 1 v) qsize) 4
  if x ≥ 0 then x.floor else -((-x).floor)

structure TEntry where
  value : Rat
  content : Option NC
  deriving DecidableEq, Repr, Inhabited

structure TBar where
  count : Int
  unit : Rat
  entries : List TEntry
  deriving DecidableEq, Repr, Inhabited

def find2 (ln : Line) : Int :=
  let rec go : Line → Nat → Int
    | '|' :: '|' :: _, i => i
    | _ :: rest, i => go rest (i + 1)
    | [], _ => -1
  go ln 0

/-- the widest fret number of a fingering (at least `m0`) -/
def maxLen (f : Fingering) (m0 : Nat) : Nat :=
  f.foldl (fun m p => if (Note.showInt p.2).length > m then (Note.showInt p.2).length else m) m0

/-- the columns one entry adds to string line `i` -/
def entryCols (f : Fingering) (maxlen : Nat) (dur : Int) (i : Nat) (ln : Line) : Line :=
  match (f.reverse.find? (·.1 == i)) with      -- a dict: the last assignment to a string wins
  | none => ln ++ rep '-' maxlen ++ rep '-' dur
  | some p => ln ++ rjust (Note.showInt p.2) maxlen ++ rep '-' dur

/-- the fingering used for an entry and the initial width: a rest has none and is one column wide -/
def entryFingering (t : Tuning) (e : TEntry) : Except Err (Fingering × Nat) :=
  match e.content with
  | none => pure ([], 1)
  | some notes => do
    let fs ← findFingering t notes 4
    match fs with
    | [] => .error .finger
    | f :: _ => pure (f, 0)

/-- one entry of `from_Bar` -/
def barStep (t : Tuning) (qsize : Int) (result : List Line) (e : TEntry) : Except Err (List Line) :=
  if e.value = 0 then .error .zeroDiv
  else do
    let fm ← entryFingering t e
    let maxlen := maxLen fm.1 fm.2
    let dur := columns e.value qsize - maxlen
    pure ((List.zip (List.range result.length) result).map fun p => entryCols fm.1 maxlen dur p.1 p.2)

/-- `from_Bar(bar, width, tuning, collapse=False)`: the quarter-mark line followed by the string lines, highest first -/
def fromBar (t : Tuning) (b : TBar) (width : Int) : Except Err (List Line) := do
  let qsize ← qSize t width
  let pad := max 2 (qsize / 2)
  let start ← beginTrack t pad
  let result ← b.entries.foldlM (barStep t qsize) start
  let l : Int := (result.headD []).length + 1
  let lines := (result.map fun ln => ln ++ rep '-' (width - l) ++ lit "|").reverse
  let top := lines.headD []
  if b.unit = 0 then .error .zeroDiv
  let padq := rep ' ' (columns b.unit qsize - 1)
  let r := rep ' ' (find2 top + 2 + pad) ++ (List.replicate b.count.toNat (lit "*" ++ padq)).flatten
  let r := r ++ rep ' ' ((top.length : Int) - r.length)
  pure (r :: lines)

/-- append `item[barstart:]` of each line of `r` to the last lines of `result` (`result[-i] += r[len(r)-i][barstart:]`) -/
def glue (result r : List Line) (barstart : Int) : List Line :=
  let k := r.length
  let keep := result.take (result.length - k)
  let tail := result.drop (result.length - k)
  keep ++ (List.zip tail r).map fun (a, b) => a ++ b.drop barstart.toNat

/-- `from_Track(track, maxwidth, tuning)` -/
def fromTrack (t : Tuning) (bars : List TBar) (maxwidth : Int) : Except Err (List Line) := do
  let width := getWidth maxwidth
  let (result, _) ← bars.foldlM (fun (acc : List Line × Int) b => do
    let r ← fromBar t b width
    let barstart := find2 (r.getD 1 []) + 2
    let result := if ((r.headD []).length + acc.2) - barstart < maxwidth ∧ acc.1 ≠ [] then glue acc.1 r barstart
      else acc.1 ++ [[], []] ++ r
    pure (result, ((result.getLast?.getD []).length : Int))) (([] : List Line), (0 : Int))
  pure result

/-! ### headers -/

def centre (x : Str) (width : Int) : Str :=
  if (x.length : Int) ≥ width then x
  else
    let pad := width - x.length
    let left := pad / 2 + (if pad % 2 = 1 ∧ width % 2 = 1 then 1 else 0)
    rep ' ' left ++ x ++ rep ' ' (pad - left)

def isAlpha (c : Char) : Bool := ('a'.toNat ≤ c.toNat ∧ c.toNat ≤ 'z'.toNat) ∨ ('A'.toNat ≤ c.toNat ∧ c.toNat ≤ 'Z'.toNat)
def lower (c : Char) : Char := if 'A'.toNat ≤ c.toNat ∧ c.toNat ≤ 'Z'.toNat then Char.ofNat (c.toNat + 32) else c
def upperC (c : Char) : Char := if 'a'.toNat ≤ c.toNat ∧ c.toNat ≤ 'z'.toNat then Char.ofNat (c.toNat - 32) else c

/-- `str.title` on ASCII -/
def title : Str → Bool → Str
  | [], _ => []
  | c :: t, prevAlpha => (if isAlpha c then (if prevAlpha then lower c else upperC c) else c) :: title t (isAlpha c)

def splitWs (x : Str) : List Str :=
  let r := x.foldl (fun (acc : List Str × Str) c => if c = ' ' ∨ c = '\n' ∨ c = '\t' then
      (if acc.2 = [] then acc else (acc.1 ++ [acc.2], [])) else (acc.1, acc.2 ++ [c])) ([], [])
  if r.2 = [] then r.1 else r.1 ++ [r.2]

/-- one turn of the word-wrapping loop of `add_headers`: (finished lines, open line, `last`) -/
def wrapStep (width : Int) (acc : List (List Str) × List Str × Int) (w : Str) : List (List Str) × List Str × Int :=
  if (w.length : Int) + acc.2.2 < width - 10 then (acc.1, acc.2.1 ++ [w], acc.2.2 + w.length + 1)
  else (acc.1 ++ [acc.2.1], [w], w.length + 1)

/-- the description's words, wrapped: the loop, then `lines.append(line)` -/
def wrapWords (width : Int) (words : List Str) : List (List Str) :=
  let st := words.foldl (wrapStep width) ([], [], 0)
  st.1 ++ [st.2.1]

/-- `add_headers(width, title, subtitle, author, email, description, tunings)` -/
def addHeaders (width : Int) (ttl subtitle author email description : Str) (tunings : List (Str × Str)) : List Line :=
  let result : List Line := [[], centre ((lit "  ").intercalate ((upper ttl).map fun c => [c])) width]
  let result := if subtitle ≠ [] then result ++ [[], centre (title subtitle false) width] else result
  let result := if author ≠ [] ∨ email ≠ [] then
      result ++ [[], []] ++ [centre (if email ≠ [] then lit "Written by: " ++ author ++ lit " <" ++ email ++ lit ">"
                                     else lit "Written by: " ++ author) width]
    else result
  let result := if description ≠ [] then
      result ++ [[], []] ++ (wrapWords width (splitWs description)).map fun line => centre ((lit " ").intercalate line) width
    else result
  let result := if tunings ≠ [] then
      result ++ [[], [], centre (lit "Instruments") width] ++
        (List.zip (List.range tunings.length) tunings).flatMap fun (i, t) =>
          [[], centre (Note.showNat (i + 1) ++ lit ". " ++ t.1) width, centre t.2 width]
    else result
  result ++ [[], []]

/-- the tuning a track of a composition is drawn on -/
def tuningOf (o : Option (Str × Str × Tuning)) : Tuning := match o with | some x => x.2.2 | none => defaultTuning

/-- one bar of one track inside a row of `from_Composition`: rendered, its quarter-mark line overlaid with `||` for every
    track but the first, and glued to what the row already shows of this track -/
def compBar (t : Tuning) (w : Int) (notfirst : Bool) (ascii : List Line) (bar : TBar) : Except Err (List Line) := do
  let r ← fromBar t bar w
  let barstart := find2 (r.getD 1 []) + 2
  let r := if notfirst then
      (match r with
       | r0 :: rest => (r0.take (barstart - 2).toNat ++ lit "||" ++ r0.drop barstart.toNat) :: rest
       | [] => [])
    else r
  pure (if ascii ≠ [] then glue ascii r barstart else ascii ++ r)

/-- what one row shows of one track: its bars `barindex … barindex + bars − 1`, as far as they exist -/
def compTrackRow (t : Tuning) (w : Int) (bars barindex : Nat) (trbars : List TBar) (notfirst : Bool) : Except Err (List Line) :=
  (List.range bars).foldlM (fun (ascii : List Line) x =>
    (trbars[barindex + x]?).elim (pure ascii) (compBar t w notfirst ascii)) []

/-- one row: every track in turn, every track but the first preceded by two `||` lines (when it shows anything) -/
def compRow (tracks : List (Option (Str × Str × Tuning) × List TBar)) (w : Int) (bars barindex : Nat) (result : List Line) :
    Except Err (List Line × Bool) :=
  tracks.foldlM (fun (acc : List Line × Bool) tr => do
    let ascii ← compTrackRow (tuningOf tr.1) w bars barindex tr.2 acc.2
    if acc.2 ∧ ascii ≠ [] then
      let pad := find2 (ascii.getLast?.getD [])
      pure (acc.1 ++ [rep ' ' pad ++ lit "||", rep ' ' pad ++ lit "||"] ++ ascii, true)
    else pure (acc.1 ++ ascii, true)) (result, false)

/-- the rows, `bars` bars per row, until every track is exhausted (fuel: the `while` loop) -/
def compRows (tracks : List (Option (Str × Str × Tuning) × List TBar)) (w : Int) (bars maxlen : Nat) :
    Nat → Nat → List Line → Except Err (List Line)
  | 0, _, result => pure result
  | fuel + 1, barindex, result =>
    if barindex ≥ maxlen then pure result
    else do
      let r ← compRow tracks w bars barindex result
      compRows tracks w bars maxlen fuel (barindex + bars) (r.1 ++ [[], [], []])

/-- `from_Composition(composition, width)`: every track is drawn on its OWN tuning (given as (instrument, description,
    strings)), a track without one on the default tuning -/
def fromComposition (ttl subtitle author email description : Str) (tracks : List (Option (Str × Str × Tuning) × List TBar))
    (width : Int) : Except Err (List Line) := do
  let header := addHeaders width ttl subtitle author email description
    (tracks.map fun t => match t.1 with | some x => (x.1, x.2.1) | none => (lit "Guitar", lit "Standard tuning"))
  let w := getWidth width
  if w = 0 then .error .zeroDiv
  let bars := width / w
  let maxlen := tracks.foldl (fun m t => if t.2.length > m then t.2.length else m) 0
  if tracks = [] then .error .value            -- max() of an empty sequence
  if bars ≤ 0 then .error .hang
  compRows tracks w bars.toNat maxlen (maxlen + 1) 0 header

end Mingus.Tab
