import Mingus.Model.Containers
import Mingus.Model.GM
/-
  Model of mingus/midi/sequencer.py and sequencer_observer.py as a trace machine.

  The hooks a subclass overrides (`play_event`, `stop_event`, `sleep`, `instr_event`, `cc_event`) append to `hooks`;
  `notify_listeners` delivers to every attached observer; an observer (SequencerObserver) turns the five low-level
  messages into the same five kinds of events and counts the nine high-level ones.  Time is the sequence of `sleep`
  arguments, exact doubles (`60.0 / bpm * (4.0 / value)` in IEEE arithmetic).

  `play_Bars` is modelled statement by statement, including its float cursor, the re-triggering of entries whose bar
  has not advanced and the remove-while-iterating loop at the end; the one path not modelled is `playing.sort()` on two
  or more sounding containers (Python would compare NoteContainers, which may raise), reported as `.hang`.
-/
namespace Mingus.Seq
open Mingus.Containers

inductive SEv
  | play (p ch vel : Int)
  | stop (p ch : Int)
  | sleep (s : Rat)
  | instr (ch i bank : Int)
  | cc (ch c v : Int)
  deriving DecidableEq, Repr, Inhabited

structure St where
  hooks : List SEv := []
  listeners : List Nat := []
  obs : List (List SEv) := [[], []]      -- the low-level trace of observer 0 and 1
  high : List Nat := [0, 0]               -- how many high-level notifications each received
  deriving DecidableEq, Repr, Inhabited

def addAt {α} (l : List α) (i : Nat) (f : α → α) : List α := l.mapIdx fun j x => if j = i then f x else x

/-- a hook call followed by the matching low-level notification -/
def emit (st : St) (e : SEv) : St :=
  { st with hooks := st.hooks ++ [e],
            obs := st.listeners.foldl (fun o k => addAt o k (· ++ [e])) st.obs }

/-- a high-level notification -/
def notifyHigh (st : St) : St :=
  { st with high := st.listeners.foldl (fun h k => addAt h k (· + 1)) st.high }

def attach (st : St) (k : Nat) : St := if st.listeners.contains k then st else { st with listeners := st.listeners ++ [k] }
def detach (st : St) (k : Nat) : St := { st with listeners := st.listeners.erase k }

def setInstrument (st : St) (ch i bank : Int) : St := emit st (.instr ch i bank)

/-- `control_change`: (accepted?, state) -/
def controlChange (st : St) (ch c v : Int) : Bool × St :=
  if c < 0 ∨ c > 128 then (false, st)
  else if v < 0 ∨ v > 128 then (false, st)
  else (true, emit st (.cc ch c v))

def playNote (st : St) (n : Note) : Except Err St := do
  let p ← n.toInt
  pure (notifyHigh (emit st (.play (p + 12) n.channel n.velocity)))

def stopNote (st : St) (n : Note) : Except Err St := do
  let p ← n.toInt
  pure (notifyHigh (emit st (.stop (p + 12) n.channel)))

/-- `none` = a rest (None); the empty container plays nothing either -/
def playNC (st : St) (nc : Option NC) : Except Err St :=
  match nc with
  | none => pure (notifyHigh st)
  | some l => l.foldlM playNote (notifyHigh st)

def stopNC (st : St) (nc : Option NC) : Except Err St :=
  match nc with
  | none => pure (notifyHigh st)
  | some l => l.foldlM stopNote (notifyHigh st)

/-- a bar entry as the sequencer sees it: start beat, value, container, and the container's `bpm` attribute if any -/
structure SEntry where
  start : Rat
  value : Rat
  content : Option NC
  bpm : Option Int := none
  deriving DecidableEq, Repr, Inhabited

structure SBar where
  length : Rat
  entries : List SEntry
  deriving DecidableEq, Repr, Inhabited

/-- `60.0 / bpm * (4.0 / value)` -/
def secs (bpm : Int) (value : Rat) : Rat := F64.mul (F64.div 60 bpm) (F64.div 4 value)

def playEntry (acc : St × Int) (e : SEntry) : Except Err (St × Int) := do
  let (st, bpm) := acc
  let st ← playNC st e.content
  let bpm := match e.bpm with | some b => b | none => bpm
  if bpm = 0 then .error .zeroDiv
  else if e.value = 0 then .error .zeroDiv
  else do
    let st := emit st (.sleep (secs bpm e.value))
    let st ← stopNC st e.content
    pure (st, bpm)

/-- `play_Bar` -/
def playBar (st : St) (b : SBar) (bpm : Int) : Except Err (St × Int) :=
  if bpm = 0 then .error .zeroDiv
  else b.entries.foldlM playEntry (notifyHigh st, bpm)

/-- `play_Track` -/
def playTrack (st : St) (bars : List SBar) (bpm : Int) : Except Err (St × Int) :=
  bars.foldlM (fun acc b => playBar acc.1 b acc.2) (notifyHigh st, bpm)

/-! ### play_Bars -/

structure Playing where
  length : Rat
  nc : Option NC
  chan : Int
  n : Nat
  deriving DecidableEq, Repr, Inhabited

def tiny : Rat := F64.round (1 / 100000)

/-- the `for (n, x) in enumerate(cur)` loop: start what is due -/
def startDue (bars : List SBar) (chans : List Int) (tick : Rat) :
    List (Nat × Nat) → St × Int × List (Rat × Nat) × List Playing → Except Err (St × Int × List (Rat × Nat) × List Playing)
  | [], acc => pure acc
  | (n, x) :: rest, (st, bpm, pnew, playing) =>
    match bars[n]? with
    | none => .error .index
    | some b =>
      match b.entries[x]? with
      | none => .error .index
      | some e =>
        if e.start ≤ tick then
          match chans[n]? with
          | none => .error .index
          | some ch => do
            let st ← playNC st e.content
            let bpm := match e.bpm with | some v => v | none => bpm
            startDue bars chans tick rest (st, bpm, pnew ++ [(e.value, n)], playing ++ [⟨e.value, e.content, ch, n⟩])
        else startDue bars chans tick rest (st, bpm, pnew, playing)

def maxLen (l : List Rat) : Rat := l.foldl (fun m x => if x > m then x else m) (l.headD 0)

/-- `if cur[n] < len(bars[n]) - 1: cur[n] += 1` -/
def bump (bars : List SBar) (cur : List Nat) (n : Nat) : List Nat :=
  match cur[n]?, bars[n]? with
  | some c, some b => if c + 1 < b.entries.length then cur.set n (c + 1) else cur
  | _, _ => cur

/-- the "adjust the duration in `playing`" loop -/
def settle (bars : List SBar) (shortest : Rat) :
    List Playing → St × List Nat × List Playing → Except Err (St × List Nat × List Playing)
  | [], acc => pure acc
  | p :: rest, (st, cur, keep) =>
    let duration := F64.sub (F64.div 1 p.length) (F64.div 1 shortest)
    if duration ≥ tiny then settle bars shortest rest (st, cur, keep ++ [{ p with length := F64.div 1 duration }])
    else do
      let st ← stopNC st p.nc
      settle bars shortest rest (st, bump bars cur p.n, keep)

def barsLoop (bars : List SBar) (chans : List Int) (length0 : Rat) :
    Nat → St → Int → Rat → List Nat → List Playing → Except Err (St × Option Int × List Playing)
  | 0, _, _, _, _, _ => .error .hang
  | fuel + 1, st, bpm, tick, cur, playing =>
    if ¬ (tick < length0) then pure (st, some bpm, playing)
    else do
      let (st, bpm, pnew, playing) ← startDue bars chans tick (List.zip (List.range cur.length) cur) (st, bpm, [], playing)
      if bpm = 0 then .error .zeroDiv
      else if pnew = [] ∧ playing = [] then pure (st, none, [])      -- `return {}`
      else do
        let shortest ←
          if pnew ≠ [] then pure (maxLen (pnew.map (·.1)))
          else if playing.length = 1 then pure (maxLen (playing.map (·.length)))
          else .error .hang                                  -- playing.sort() on containers: not modelled
        if shortest = 0 then .error .zeroDiv
        else do
          let st := emit st (.sleep (F64.mul (F64.div 60 bpm) (F64.div 4 shortest)))
          let tick := F64.add tick (F64.div 1 shortest)
          let (st, cur, playing) ← settle bars shortest playing (st, cur, [])
          barsLoop bars chans length0 fuel st bpm tick cur playing

/-- `[length, nc, chan, n] == [length', nc', chan', n']` as Python compares lists: element by element, stopping at the first
    difference; a NoteContainer and None (a rest) are unequal (before the repair 8b1047f that comparison raised TypeError) -/
def playingEq (a b : Playing) : Except Err Bool :=
  if a.length ≠ b.length then pure false
  else match a.nc, b.nc with
    | none, none => pure (a.chan == b.chan && a.n == b.n)
    | some x, some y => if NC.eq x y then pure (a.chan == b.chan && a.n == b.n) else pure false
    | _, _ => pure false

/-- `playing.remove(p)` where `p` is the element at index `i`: the first element equal to `p` goes (at the latest `p` itself) -/
def removeFirst (p : Playing) (i : Nat) : Nat → List Playing → Except Err (List Playing)
  | _, [] => pure []
  | j, x :: rest =>
    if j = i then pure rest
    else do
      let e ← playingEq x p
      if e then pure rest else do
        let r ← removeFirst p i (j + 1) rest
        pure (x :: r)

/-- the final `for p in playing: stop; playing.remove(p)` — removing while iterating, as the interpreter runs it -/
def finalLoop : Nat → Nat → List Playing → St → Except Err St
  | 0, _, _, st => pure st
  | fuel + 1, i, l, st =>
    match l[i]? with
    | none => pure st
    | some p => do
      let st ← stopNC st p.nc
      let l ← removeFirst p i 0 l
      finalLoop fuel (i + 1) l st

/-- `play_Bars`; the tempo is `none` for the `return {}` of a bar with a gap -/
def playBars (st : St) (bars : List SBar) (chans : List Int) (bpm : Int) : Except Err (St × Option Int) :=
  match bars with
  | [] => .error .index
  | b0 :: _ =>
    if bpm = 0 then .error .zeroDiv
    else do
      let fuel := 4 * (bars.foldl (fun a b => a + b.entries.length) 0) + 64
      let (st, bpm, playing) ← barsLoop bars chans b0.length fuel (notifyHigh st) bpm 0 (bars.map fun _ => 0) []
      match bpm with
      | none => pure (st, none)
      | some bpm => do
        let st ← finalLoop (playing.length + 1) 0 playing st
        pure (st, some bpm)

/-- a track for the sequencer: its instrument (none | program number | name) and bars -/
inductive Instr
  | plain | nr (i : Int) | named (s : Str)
  deriving DecidableEq, Repr, Inhabited

def program : Instr → Int
  | .plain => 1
  | .nr i => i
  | .named s => let i := GM.names.findIdx (· == s); if i < GM.names.length then i else 1

/-- the bar loop of `play_Tracks`: stops with `{}` as soon as one group returns `{}` -/
def groupsLoop (tracks : List (Instr × List SBar)) (chans : List Int) : List Nat → St → Int → Except Err (St × Option Int)
  | [], st, bpm => pure (st, some bpm)
  | i :: rest, st, bpm => do
    let bars ← tracks.mapM fun t => match t.2[i]? with | some b => pure b | none => .error .index
    let (st, r) ← playBars st bars chans bpm
    match r with
    | none => pure (st, none)
    | some bpm => groupsLoop tracks chans rest st bpm

/-- `play_Tracks` -/
def playTracks (st : St) (tracks : List (Instr × List SBar)) (chans : List Int) (bpm : Int) : Except Err (St × Option Int) := do
  let st := notifyHigh st
  let st ← (List.zip (List.range tracks.length) tracks).foldlM (fun s (x : Nat × Instr × List SBar) =>
    match chans[x.1]? with
    | none => .error .index
    | some ch => pure (setInstrument s ch (program x.2.1) 0)) st
  match tracks with
  | [] => .error .index
  | t0 :: _ => groupsLoop tracks chans (List.range t0.2.length) st bpm

/-- `channels == None` → `[x + 1 for x in range(len(tracks))]` -/
def compChans (chans : Option (List Int)) (n : Nat) : List Int :=
  match chans with
  | some c => c
  | none => (List.range n).map fun (x : Nat) => (x : Int) + 1

/-- `play_Composition` -/
def playComposition (st : St) (tracks : List (Instr × List SBar)) (chans : Option (List Int)) (bpm : Int) : Except Err (St × Option Int) :=
  playTracks (notifyHigh st) tracks (compChans chans tracks.length) bpm

end Mingus.Seq
