import Mingus.Model.Containers
import Mingus.Model.Value
/-
  Model of the exporters: mingus/extra/lilypond.py (from_Note … from_Composition, as character strings) and
  mingus/extra/musicxml.py (the element tree that _composition2musicxml builds; its serialisation to text by
  xml.dom.minidom is not modelled — the harness parses the implementation's text with expat and compares trees).
-/
namespace Mingus.Export
open Mingus.Containers

/-! ### LilyPond -/

def lowerChar (c : Char) : Char := if 'A'.toNat ≤ c.toNat ∧ c.toNat ≤ 'Z'.toNat then Char.ofNat (c.toNat + 32) else c
def upperChar (c : Char) : Char := if 'a'.toNat ≤ c.toNat ∧ c.toNat ≤ 'z'.toNat then Char.ofNat (c.toNat - 32) else c

/-- `is` for every `#`, `es` for every `b` -/
def lyAcc : Str → Str
  | [] => []
  | c :: t => (if c = '#' then lit "is" else if c = 'b' then lit "es" else []) ++ lyAcc t

/-- `'` above octave 3, `,` below -/
def lyOctave (o : Int) : Str :=
  if o ≥ 4 then List.replicate (o - 3).toNat '\'' else if o < 3 then List.replicate (3 - o).toNat ',' else []

def wrap (x : Str) : Str := lit "{ " ++ x ++ lit " }"

/-- `from_Note(note, process_octaves, standalone)` -/
def lyNote (n : Note) (processOctaves standalone : Bool) : Except Err Str :=
  match n.name with
  | [] => .error .index
  | l :: t =>
    let r := [lowerChar l] ++ lyAcc t ++ (if processOctaves then lyOctave n.octave else [])
    pure (if standalone then wrap r else r)

def longa : Rat := 1 / 4
def breve : Rat := 1 / 2

/-- the duration suffix: base value (`\longa`, `\breve` or the integer) and one `.` per dot -/
def lyDuration (d : Rat) : Except Err Str := do
  let (base, dots, _, _) ← Value.determine d
  let b := if base = longa then lit "\\longa" else if base = breve then lit "\\breve" else Note.showInt base.floor
  pure (b ++ List.replicate dots '.')

/-- `from_NoteContainer(nc, duration, standalone)`; `none` is None -/
def lyNC (nc : Option NC) (duration : Option Rat) (standalone : Bool) : Except Err Str := do
  let body ← (match nc with
    | none => pure (lit "r")
    | some [] => pure (lit "r")
    | some [n] => lyNote n true false
    | some ns => do
      let parts ← ns.mapM fun n => lyNote n true false
      pure (lit "<" ++ (lit " ").intercalate parts ++ lit ">"))
  let dur ← (match duration with
    | none => pure []
    | some d => lyDuration d)
  let r := body ++ dur
  pure (if standalone then wrap r else r)

structure LEntry where
  value : Rat
  content : Option NC
  deriving DecidableEq, Repr, Inhabited

structure LBar where
  key : Str
  count : Int
  unit : Int
  entries : List LEntry
  deriving DecidableEq, Repr, Inhabited

def modeOf (key : Str) : Str := if (key.headD 'C').toNat ≥ 'a'.toNat ∧ (key.headD 'C').toNat ≤ 'z'.toNat then lit "minor" else lit "major"

/-- the entries of a bar with `\times n/m { … }` blocks opened whenever the tuplet ratio changes -/
def lyEntries : List LEntry → (Nat × Nat) → Bool → Except Err Str
  | [], _, changed => pure (if changed then lit "}" else [])
  | e :: es, latest, changed => do
    let (_, _, a, n) ← Value.determine e.value
    let tok ← lyNC e.content (some e.value) false
    if (a, n) = latest then do
      let rest ← lyEntries es latest changed
      pure (tok ++ lit " " ++ rest)
    else do
      let rest ← lyEntries es (a, n) true
      pure ((if changed then lit "}" else []) ++ lit "\\times " ++ Note.showNat n ++ lit "/" ++ Note.showNat a ++ lit " {" ++ tok ++ lit " " ++ rest)

/-- `from_Bar(bar, showkey, showtime)` -/
def lyBar (b : LBar) (showkey showtime : Bool) : Except Err Str := do
  let key ← (if showkey then
      match b.key with
      | [] => .error .index
      | l :: t => do
        let k ← lyNote ⟨upperChar l :: t, 4, 1, 64⟩ false false
        pure (lit "\\key " ++ k ++ lit " \\" ++ modeOf b.key ++ lit " ")
    else pure [])
  let body ← lyEntries b.entries (1, 1) false
  let result := key ++ body
  pure (if showtime then lit "{ \\time " ++ Note.showInt b.count ++ lit "/" ++ Note.showInt b.unit ++ lit " " ++ result ++ lit "}"
        else lit "{ " ++ result ++ lit "}")

/-- `from_Track`: key and time are shown when they differ from the previous bar's (C major, 4/4 before the first) -/
def lyTrackBars : List LBar → Str → (Int × Int) → Except Err Str
  | [], _, _ => pure []
  | b :: bs, lastkey, lasttime => do
    let s ← lyBar b (lastkey != b.key) (lasttime != (b.count, b.unit))
    let rest ← lyTrackBars bs b.key (b.count, b.unit)
    pure (s ++ lit " " ++ rest)

def lyTrack (bars : List LBar) : Except Err Str := do
  let r ← lyTrackBars bars (lit "C") (4, 4)
  pure (lit "{ " ++ r ++ lit "}")

/-- `from_Composition` -/
def lyComposition (title author subtitle : Str) (tracks : List (List LBar)) : Except Err Str := do
  let parts ← tracks.mapM lyTrack
  let r := lit "\\header { title = \"" ++ title ++ lit "\" composer = \"" ++ author ++ lit "\" opus = \"" ++ subtitle ++ lit "\" } " ++
    parts.foldl (fun acc p => acc ++ p ++ lit " ") []
  pure r.dropLast

/-! ### MusicXML: the element tree -/

inductive Xml
  | elem (tag : Str) (attrs : List (Str × Str)) (text : Str) (children : List Xml)
  deriving Repr, Inhabited

def leaf (tag : String) (text : Str) : Xml := .elem tag.toList [] text []
def node (tag : String) (children : List Xml) : Xml := .elem tag.toList [] [] children

def gcd' : Nat → Nat → Nat := Nat.gcd
def lcmList (l : List Nat) : Nat := match l with | [] => 1 | x :: xs => xs.foldl (fun a b => a * b / Nat.gcd a b) x

/-- `_quarter_length`: 4/base · normal/actual · (2 − 1/2^dots) -/
def quarterLength (p : Rat × Nat × Nat × Nat) : Rat :=
  4 / p.1 * ((p.2.2.2 : Rat) / (p.2.2.1 : Rat)) * (2 - 1 / (2 : Rat) ^ p.2.1)

def typeName (base : Rat) : Option Str :=
  if base = 1 then some (lit "whole") else if base = 2 then some (lit "half") else if base = 4 then some (lit "quarter")
  else if base = 8 then some (lit "eighth") else if base = 16 then some (lit "16th") else if base = 32 then some (lit "32th")
  else if base = 64 then some (lit "64th") else if base = 128 then some (lit "128th") else none

def accCount (t : Str) : Int := t.foldl (fun c x => if x = 'b' then c - 1 else if x = '#' then c + 1 else c) 0

/-- `_note2musicxml` -/
def xmlNoteHead (n : Option Note) : Xml :=
  match n with
  | none => node "note" [node "rest" []]
  | some x =>
    let alter := accCount (x.name.drop 1)
    node "note" [node "pitch" ([leaf "step" (x.name.take 1), leaf "octave" (Note.showInt x.octave)] ++
      (if alter ≠ 0 then [leaf "alter" (Note.showInt alter)] else []))]

def addChildren : Xml → List Xml → Xml
  | .elem t a x c, more => .elem t a x (c ++ more)

def keysTable : List (Str × Int) := (List.zip Keys.majorKeys (List.range 15)).map (fun p => (p.1, (p.2 : Int) - 7)) ++
  (List.zip Keys.minorKeys (List.range 15)).map (fun p => (p.1, (p.2 : Int) - 7))

/-- the note elements of one bar entry: one per note of the container, or one rest -/
def entryHeads (e : LEntry) : List (Option Note) :=
  match e.content with
  | some (n :: ns) => (n :: ns).map some
  | _ => [none]

def xmlEntryNotes (divisions : Nat) (e : LEntry) (p : Rat × Nat × Nat × Nat) : List Xml :=
  let heads := entryHeads e
  (List.zip (List.range heads.length) heads).map fun (i, h) =>
    addChildren (xmlNoteHead h)
      ((if heads.length > 1 ∧ i > 0 then [node "chord" []] else []) ++
       [leaf "duration" (Note.showInt ((divisions : Rat) * quarterLength p).floor)] ++
       List.replicate p.2.1 (node "dot" []) ++
       (typeName p.1).toList.map (leaf "type") ++
       (if p.2.2.1 ≠ 1 ∧ p.2.2.2 ≠ 1 then
          [node "time-modification" [leaf "actual-notes" (Note.showNat p.2.2.1), leaf "normal-notes" (Note.showNat p.2.2.2)]]
        else []))

/-- `_bar2musicxml` (plus the measure number and the clef that `_track2musicxml` adds) -/
def xmlBar (b : LBar) (number : Nat) (clef : Option (Str × Str)) : Except Err Xml := do
  let parsed ← b.entries.mapM fun e => Value.determine e.value
  let divisions := lcmList (parsed.map fun p => (quarterLength p).den)
  let fifths ← (match Keys.getKeySignature b.key with | .ok s => pure s | .error e => .error e)
  let attributes := node "attributes" ([leaf "divisions" (Note.showNat divisions),
      node "key" [leaf "fifths" (Note.showInt fifths), leaf "mode" (modeOf b.key)],
      node "time" [leaf "beats" (Note.showInt b.count), leaf "beat-type" (Note.showInt b.unit)]] ++
      (match clef with | some (s, l) => [node "clef" [leaf "sign" s, leaf "line" l]] | none => []))
  let notes := (List.zip b.entries parsed).flatMap fun (e, p) => xmlEntryNotes divisions e p
  pure (.elem (lit "measure") [(lit "number", Note.showNat number)] [] (attributes :: notes))

/-- a track's instrument as the exporter sees it -/
structure XInstr where
  midi : Bool
  name : Str
  nr : Int
  deriving DecidableEq, Repr, Inhabited

structure XTrack where
  name : Str
  instr : Option XInstr
  bars : List LBar
  deriving DecidableEq, Repr, Inhabited

/-- `_track2musicxml`; every Instrument's clef text is "bass and treble", which the guesser reads as a G clef on line 2 -/
def xmlTrack (t : XTrack) (idx : Nat) : Except Err Xml := do
  let clef := match t.instr with | some _ => some (lit "G", lit "2") | none => none
  let bars ← (List.zip (List.range t.bars.length) t.bars).mapM fun (i, b) => xmlBar b (i + 1) clef
  pure (.elem (lit "part") [(lit "id", lit "P" ++ Note.showNat idx)] [] bars)

/-- the stripped text of a text-only element, as the harness canonicalises it -/
def strip (x : Str) : Str :=
  let isWs := fun (c : Char) => c = ' ' ∨ c = '\n' ∨ c = '\t' ∨ c = '\r'
  ((x.dropWhile isWs).reverse.dropWhile isWs).reverse

/-- `_composition2musicxml`, with part ids P0, P1, … and instrument ids I0, I1, … by first appearance and the
    encoding date blanked (the harness's canonical form) -/
def xmlComposition (title author : Str) (tracks : List XTrack) : Except Err Xml := do
  let parts ← (List.zip (List.range tracks.length) tracks).mapM fun (i, t) => xmlTrack t i
  let instrIdx : List Nat := (tracks.foldl (fun (acc : List Nat × Nat) t =>
      match t.instr with | some _ => (acc.1 ++ [acc.2], acc.2 + 1) | none => (acc.1 ++ [0], acc.2)) ([], 0)).1
  let scoreParts := (List.zip (List.range tracks.length) (List.zip tracks instrIdx)).map fun (i, t, k) =>
    Xml.elem (lit "score-part") [(lit "id", lit "P" ++ Note.showNat i)] []
      ([leaf "part-name" (strip t.name)] ++
       (match t.instr with
        | none => []
        | some ins =>
          [Xml.elem (lit "score-instrument") [(lit "id", lit "I" ++ Note.showNat k)] [] [leaf "instrument-name" (strip ins.name)]] ++
          (if ins.midi then [Xml.elem (lit "midi-instrument") [(lit "id", lit "I" ++ Note.showNat k)] []
            [leaf "midi-channel" (lit "1"), leaf "midi-program" (Note.showInt ins.nr)]] else [])))
  pure (.elem (lit "score-partwise") [(lit "version", lit "2.0")] []
    ((if title ≠ [] then [leaf "movement-title" (strip title)] else []) ++
     [node "identification" ((if author ≠ [] then [Xml.elem (lit "creator") [(lit "type", lit "composer")] (strip author) []] else []) ++
        [node "encoding" [leaf "software" (lit "mingus"), leaf "encoding-date" []]])] ++
     [node "part-list" scoreParts] ++ parts))

end Mingus.Export
