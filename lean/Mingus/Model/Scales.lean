import Mingus.Model.Intervals
/- Model of mingus/core/scales.py. -/
namespace Mingus.Scales
open Mingus.Notes Mingus.Keys Mingus.Intervals
local notation "s" => lit

inductive Kind
  | diatonic (semitones : List Int)
  | ionian | dorian | phrygian | lydian | mixolydian | aeolian | locrian
  | major | harmonicMajor | naturalMinor | harmonicMinor | melodicMinor | bachian | minorNeapolitan
  | chromatic | wholeTone | octatonic
  deriving DecidableEq, Repr

/-- the seven modes: class name and the semitone positions handed to `Diatonic` -/
def modeTable : List (Str × Int × Int) :=
  [(s "Ionian", 3, 7), (s "Dorian", 2, 6), (s "Phrygian", 1, 5), (s "Lydian", 4, 7),
   (s "Mixolydian", 3, 6), (s "Aeolian", 2, 5), (s "Locrian", 1, 4)]

def modeSemis : Kind → Option (List Int)
  | .ionian => some [3, 7] | .dorian => some [2, 6] | .phrygian => some [1, 5] | .lydian => some [4, 7]
  | .mixolydian => some [3, 6] | .aeolian => some [2, 5] | .locrian => some [1, 4] | _ => none

/-- Python `str.islower()`: at least one cased character and no upper-case one (ASCII view) -/
def pyIsLower (x : Str) : Bool := x.any Char.isLower && !x.any Char.isUpper
def pyLower (x : Str) : Str := x.map Char.toLower

/-- `notes * octaves + [notes[0]]` -/
def octs (notes : List Str) (octaves : Int) : Except Err (List Str) :=
  match notes with
  | [] => .error .index
  | n0 :: _ => .ok ((List.replicate octaves.toNat notes).flatten ++ [n0])

def setAt (l : List Str) (i : Nat) (f : Str → Str) : List Str :=
  l.mapIdx (fun j x => if j = i then f x else x)

/-- `notes = [tonic]; for i in is: notes.append(f(i, notes[-1]))` -/
def grow (f : Nat → Str → Except Err Str) (is : List Nat) (acc : List Str) : Except Err (List Str) :=
  is.foldlM (fun (acc : List Str) (i : Nat) => do
      let nxt ← f i (acc.getLastD [])
      pure (acc ++ [nxt])) acc

/-- the body of `Diatonic.ascending` before the octave repetition -/
def diatonicNotes (tonic : Str) (semis : List Int) : Except Err (List Str) :=
  grow (fun i last => if semis.contains ((i : Int) + 1) then minorSecond last else majorSecond last)
    (List.range 6) [tonic]

def wholeToneNotes (tonic : Str) : Except Err (List Str) :=
  grow (fun _ last => majorSecond last) (List.range 5) [tonic]

def octatonicNotes (tonic : Str) : Except Err (List Str) := do
  let step (acc : List Str) : Except Err (List Str) := do
    let last := acc.getLastD []
    let a ← majorSecond last
    let b ← minorThird last
    pure (acc ++ [a, b])
  let n1 ← step [tonic]
  let n2 ← step n1
  let n3 ← step n2
  let sev ← majorSeventh tonic
  let six ← majorSixth tonic
  pure (n3.dropLast ++ [six, sev])

/-- `Chromatic.ascending` / `descending` bodies (key-based) -/
def chromaticAsc (key : Str) : Except Err (List Str) := do
  let kn ← getNotes key
  let tonic := kn.headD []
  let r ← (kn.drop 1 ++ [tonic]).foldlM (fun (acc : List Str) (note : Str) => do
      let last := acc.getLastD []
      let d ← determine last note false
      if d = s "major second" then pure (acc ++ [augment last, note]) else pure (acc ++ [note])) [tonic]
  pure r.dropLast

def chromaticDesc (key : Str) : Except Err (List Str) := do
  let kn ← getNotes key
  let tonic := kn.headD []
  let r ← kn.reverse.foldlM (fun (acc : List Str) (note : Str) => do
      let last := acc.getLastD []
      let d ← determine note last false
      if d = s "major second" then do
        let red ← reduceAccidentals (diminish last)
        pure (acc ++ [red, note])
      else pure (acc ++ [note])) [tonic]
  pure r.dropLast

structure Scale where
  kind : Kind
  tonic : Str      -- for `chromatic` this is the key argument
  octaves : Int
  deriving DecidableEq, Repr

/-- `_Scale.__init__` guard (Chromatic instead calls `get_notes(key)`) -/
def initCheck (sc : Scale) : Except Err Unit :=
  match sc.kind with
  | .chromatic => do let _ ← getNotes sc.tonic; pure ()
  | _ => if pyIsLower sc.tonic then .error .noteFormat else .ok ()

/-- one octave of the ascending scale (the list that gets repeated) -/
def baseAsc (k : Kind) (tonic : Str) : Except Err (List Str) :=
  match k with
  | .diatonic sem => diatonicNotes tonic sem
  | .ionian => diatonicNotes tonic [3, 7]
  | .dorian => diatonicNotes tonic [2, 6]
  | .phrygian => diatonicNotes tonic [1, 5]
  | .lydian => diatonicNotes tonic [4, 7]
  | .mixolydian => diatonicNotes tonic [3, 6]
  | .aeolian => diatonicNotes tonic [2, 5]
  | .locrian => diatonicNotes tonic [1, 4]
  | .major => getNotes tonic
  | .harmonicMajor => do let n ← getNotes tonic; pure (setAt n 5 diminish)
  | .naturalMinor => getNotes (pyLower tonic)
  | .harmonicMinor => do let n ← getNotes (pyLower tonic); pure (setAt n 6 augment)
  | .melodicMinor => do let n ← getNotes (pyLower tonic); pure (setAt (setAt n 5 augment) 6 augment)
  | .bachian => do let n ← getNotes (pyLower tonic); pure (setAt (setAt n 5 augment) 6 augment)
  | .minorNeapolitan => do
      let n ← getNotes (pyLower tonic); pure (setAt (setAt n 6 augment) 1 diminish)
  | .chromatic => chromaticAsc tonic
  | .wholeTone => wholeToneNotes tonic
  | .octatonic => octatonicNotes tonic

def ascending (sc : Scale) : Except Err (List Str) := do
  initCheck sc
  let b ← baseAsc sc.kind sc.tonic
  octs b sc.octaves

/-- natural minor, one octave, ascending form with the tonic on top (what `NaturalMinor(t).descending()` reverses) -/
def descending (sc : Scale) : Except Err (List Str) := do
  initCheck sc
  match sc.kind with
  | .melodicMinor => do
      let n ← getNotes (pyLower sc.tonic)
      let full ← octs n 1
      octs full.reverse.dropLast sc.octaves
  | .minorNeapolitan => do
      let n ← getNotes (pyLower sc.tonic)
      let full ← octs n 1
      octs (setAt full.reverse.dropLast 6 diminish) sc.octaves
  | .chromatic => do
      let b ← chromaticDesc sc.tonic
      octs b sc.octaves
  | _ => do
      let a ← ascending sc
      pure a.reverse

/-- `degree(n, direction)` — after the `list(reversed(...))` repair of the 'd' branch -/
def degree (sc : Scale) (n : Int) (dir : Str) : Except Err Str :=
  if n < 1 then .error .range
  else if dir = ['a'] then do
    let a ← ascending sc
    match a.dropLast[(n - 1).toNat]? with
    | some x => pure x
    | none => throw .index
  else if dir = ['d'] then do
    let d ← descending sc
    match d.reverse.dropLast[(n - 1).toNat]? with
    | some x => pure x
    | none => throw .index
  else .error .format

def len (sc : Scale) : Except Err Nat := do
  let a ← ascending sc
  pure a.length

def eq (a b : Scale) : Except Err Bool := do
  let x ← ascending a
  let y ← ascending b
  if x = y then do
    let xd ← descending a
    let yd ← descending b
    pure (xd == yd)
  else pure false

/-- the scale's display name -/
def name (k : Kind) (tonic : Str) : Str :=
  match k with
  | .ionian => tonic ++ s " ionian" | .dorian => tonic ++ s " dorian" | .phrygian => tonic ++ s " phrygian"
  | .lydian => tonic ++ s " lydian" | .mixolydian => tonic ++ s " mixolydian" | .aeolian => tonic ++ s " aeolian"
  | .locrian => tonic ++ s " locrian" | .major => tonic ++ s " major" | .harmonicMajor => tonic ++ s " harmonic major"
  | .naturalMinor => tonic ++ s " natural minor" | .harmonicMinor => tonic ++ s " harmonic minor"
  | .melodicMinor => tonic ++ s " melodic minor" | .bachian => tonic ++ s " Bachian"
  | .minorNeapolitan => tonic ++ s " minor Neapolitan" | .chromatic => tonic ++ s " chromatic"
  | .wholeTone => tonic ++ s " whole tone" | .octatonic => tonic ++ s " octatonic"
  | .diatonic _ => tonic ++ s " diatonic"

/-- families scanned by `determine`, in `_Scale.__subclasses__()` definition order -/
def majorFamily : List Kind := [.major, .harmonicMajor]
def minorFamily : List Kind := [.naturalMinor, .harmonicMinor, .melodicMinor, .bachian, .minorNeapolitan]
/-- all classes in definition order with their `type` -/
def classOrder : List (Kind × Str) :=
  [(.ionian, s "ancient"), (.dorian, s "ancient"), (.phrygian, s "ancient"), (.lydian, s "ancient"),
   (.mixolydian, s "ancient"), (.aeolian, s "ancient"), (.locrian, s "ancient"),
   (.major, s "major"), (.harmonicMajor, s "major"),
   (.naturalMinor, s "minor"), (.harmonicMinor, s "minor"), (.melodicMinor, s "minor"), (.bachian, s "minor"),
   (.minorNeapolitan, s "minor"), (.chromatic, s "other"), (.wholeTone, s "other"), (.octatonic, s "other")]

def subset (a b : List Str) : Bool := a.all b.contains

/-- the (name, scale) pairs `scales.determine` scans, in scan order: for every key couple, every class in
    definition order whose `type` is "major" (on the major tonic) or "minor" (on `get_notes(minor key)[0]`) -/
def entries : List (Str × Scale) :=
  keys.flatMap fun couple =>
    classOrder.filterMap fun kc =>
      if kc.2 = s "major" then some (name kc.1 couple.1, ⟨kc.1, couple.1, 1⟩)
      else if kc.2 = s "minor" then
        let t := match getNotes couple.2 with | .ok kn => kn.headD [] | .error _ => []
        some (name kc.1 t, ⟨kc.1, t, 1⟩)
      else none

/-- `scales.determine(notes)` -/
def determine (notes : List Str) : Except Err (List Str) :=
  entries.foldlM (fun (res : List Str) (e : Str × Scale) => do
    let a ← ascending e.2
    let d ← descending e.2
    pure (if subset notes a || subset notes d then res ++ [e.1] else res)) []

end Mingus.Scales
