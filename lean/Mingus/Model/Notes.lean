import Mingus.Model.Basic
/-
  Model of mingus/core/notes.py.  Names are `List Char`; nothing is pre-parsed, so
  malformed names are first-class.  Python `%` with a positive modulus is `Int.emod`.
-/
namespace Mingus.Notes

/-- `_note_dict` -/
def noteDict : List (Char × Int) :=
  [('C', 0), ('D', 2), ('E', 4), ('F', 5), ('G', 7), ('A', 9), ('B', 11)]
/-- `fifths` -/
def fifths : List Char := ['F', 'C', 'G', 'D', 'A', 'E', 'B']
/-- `ns` / `nf` inside `int_to_note` -/
def ns : List Str := ["C", "C#", "D", "D#", "E", "F", "F#", "G", "G#", "A", "A#", "B"].map String.toList
def nf : List Str := ["C", "Db", "D", "Eb", "E", "F", "Gb", "G", "Ab", "A", "Bb", "B"].map String.toList

def natural? (c : Char) : Option Int := noteDict.lookup c
def isLetter (c : Char) : Bool := (natural? c).isSome
def isAcc (c : Char) : Bool := c == 'b' || c == '#'
def accOf (c : Char) : Int := if c = '#' then 1 else if c = 'b' then -1 else 0
/-- net accidental value of a postfix: the `for post in note[1:]` loops -/
def accVal (s : Str) : Int := s.foldl (fun v c => v + accOf c) 0

/-- `is_valid_note` (raises IndexError on the empty string) -/
def isValidNote : Str → Except Err Bool
  | [] => .error .index
  | l :: t => .ok (isLetter l && t.all isAcc)

/-- total Boolean version used in hypotheses -/
def valid : Str → Bool
  | [] => false
  | l :: t => isLetter l && t.all isAcc

/-- `note_to_int` -/
def noteToInt : Str → Except Err Int
  | [] => .error .index
  | l :: t =>
    match natural? l with
    | some v => if t.all isAcc then .ok ((v + accVal t) % 12) else .error .noteFormat
    | none => .error .noteFormat

/-- pitch class as a total function (0 on malformed input; only used under `valid`) -/
def pc : Str → Int
  | [] => 0
  | l :: t => (((natural? l).getD 0) + accVal t) % 12

/-- `int_to_note` -/
def intToNote (i : Int) (style : Str) : Except Err Str :=
  if i < 0 ∨ i ≥ 12 then .error .range
  else if style = ['#'] then .ok (ns.getD i.toNat [])
  else if style = ['b'] then .ok (nf.getD i.toNat [])
  else .error .format

/-- `is_enharmonic` -/
def isEnharmonic (a b : Str) : Except Err Bool := do
  let x ← noteToInt a
  let y ← noteToInt b
  pure (x == y)

/-- `augment` / `diminish` (Python raises IndexError on ""; callers guard) -/
def augment (n : Str) : Str := if n.getLast? ≠ some 'b' then n ++ ['#'] else n.dropLast
def diminish (n : Str) : Str := if n.getLast? ≠ some '#' then n ++ ['b'] else n.dropLast

def augmentE (n : Str) : Except Err Str := if n = [] then .error .index else .ok (augment n)
def diminishE (n : Str) : Except Err Str := if n = [] then .error .index else .ok (diminish n)

def iter {α} (f : α → α) : Nat → α → α
  | 0, a => a
  | k+1, a => iter f k (f a)

/-- the `while val > 0: augment … while val < 0: diminish` rebuild used in two places -/
def rebuild (l : Char) (val : Int) : Str :=
  if val ≥ 0 then iter augment val.toNat [l] else iter diminish (-val).toNat [l]

/-- `remove_redundant_accidentals` -/
def removeRedundant : Str → Except Err Str
  | [] => .error .index
  | l :: t => .ok (rebuild l (accVal t))

/-- `reduce_accidentals` -/
def reduceAccidentals : Str → Except Err Str
  | [] => .error .index
  | l :: t =>
    match natural? l with
    | none => .error .noteFormat
    | some v =>
      if t.all isAcc then
        let val := v + accVal t
        if val ≥ v then intToNote (val % 12) ['#'] else intToNote (val % 12) ['b']
      else .error .noteFormat

/-- canonical spelling: the letter followed by |v| sharps or |v| flats -/
def rep (l : Char) (v : Int) : Str :=
  l :: (if v ≥ 0 then List.replicate v.toNat '#' else List.replicate (-v).toNat 'b')

end Mingus.Notes
