import Mingus.Model.Chords
/- Model of mingus/core/progressions.py. -/
namespace Mingus.Progressions
open Mingus.Notes Mingus.Keys Mingus.Intervals Mingus.Chords
local notation "s" => lit

def numerals : List Str := [s "I", s "II", s "III", s "IV", s "V", s "VI", s "VII"]
def numeralIntervals : List Int := [0, 2, 4, 5, 7, 9, 11]

/-- `parse_string`: (roman numeral, accidentals, suffix) -/
def parseGo : Str → Str → Int → (Str × Int × Str)
  | [], roman, acc => (roman, acc, [])
  | c :: t, roman, acc =>
    if c = '#' then parseGo t roman (acc + 1)
    else if c = 'b' then parseGo t roman (acc - 1)
    else if c.toUpper = 'I' ∨ c.toUpper = 'V' then parseGo t (roman ++ [c.toUpper]) acc
    else (roman, acc, c :: t)
def parseString (x : Str) : Str × Int × Str := parseGo x [] 0

/-- `tuple_to_string` -/
def tupleToString (roman : Str) (acc : Int) (suff : Str) : Str :=
  let acc := if acc > 6 then 0 - acc % 6 else if acc < -6 then acc % 6 else acc
  let pre := if acc < 0 then List.replicate (-acc).toNat 'b' else List.replicate acc.toNat '#'
  pre ++ roman ++ suff

/-- `to_chords` for a list of progression strings -/
def toChordsOne (chord key : Str) : Except Err (Option (List Str)) :=
  let (roman, acc, suffix) := parseString chord
  if !numerals.contains roman then pure none
  else do
    let r ← if suffix = s "7" ∨ suffix = [] then chordFunction (roman ++ suffix) key
      else do
        let base ← chordFunction roman key
        match base.head?, chordShorthand.lookup suffix with
        | _, .none => throw .key
        | .none, _ => throw .index
        | some r0, some es => evalBuilder es r0
    let shifted := if acc < 0 then r.map (iter diminish (-acc).toNat) else r.map (iter augment acc.toNat)
    pure (some shifted)

def toChords (prog : List Str) (key : Str) : Except Err (List (List Str)) :=
  let rec go : List Str → List (List Str) → Except Err (List (List Str))
    | [], acc => pure acc
    | c :: t, acc => do
      match ← toChordsOne c key with
      | .none => pure []
      | some r => go t (acc ++ [r])
  go prog []

/-- `skip` and `interval_diff` -/
def skip (roman : Str) (count : Nat) : Except Err Str :=
  match numerals.findIdx? (· == roman) with
  | .none => .error .value
  | some i => .ok (numerals.getD ((i + count) % 7) [])

/-- the two while-loops of `interval_diff` in closed form (proved equal to the loops in Lemmas) -/
def intervalDiffLoop : Nat → Int → Int → Int → Int → Int
  | 0, _, _, _, acc => acc
  | f+1, i, j, iv, acc =>
    if j - i > iv then intervalDiffLoop f i (j - 1) iv (acc - 1)
    else if j - i < iv then intervalDiffLoop f i (j + 1) iv (acc + 1)
    else acc

def intervalDiff (p1 p2 : Str) (iv : Int) : Except Err Int :=
  match numerals.findIdx? (· == p1), numerals.findIdx? (· == p2) with
  | some a, some b =>
    let i := numeralIntervals.getD a 0
    let j := numeralIntervals.getD b 0
    let j := if j < i then j + 12 else j
    .ok (intervalDiffLoop 24 i j iv 0)
  | _, _ => .error .value

def simpleSubs : List (Str × Str) := [(s "I", s "III"), (s "I", s "VI"), (s "IV", s "II"), (s "IV", s "VI"), (s "V", s "VII")]

/-- `substitute_harmonic` -/
def substituteHarmonic (p : Str) (ignore : Bool) : Except Err (List Str) :=
  let (roman, acc, suff) := parseString p
  if suff = [] ∨ suff = s "7" ∨ ignore then
    let suff' := if suff = s "7" then s "7" else []
    pure (simpleSubs.filterMap fun sub =>
      let r := if roman = sub.1 then some sub.2 else if roman = sub.2 then some sub.1 else none
      r.map fun r => tupleToString r acc suff')
  else pure []

def substituteMinorForMajor (p : Str) (ignore : Bool) : Except Err (List Str) :=
  let (roman, acc, suff) := parseString p
  if suff = s "m" ∨ suff = s "m7" ∨ (suff = [] ∧ [s "II", s "III", s "VI"].contains roman) ∨ ignore then do
    let n ← skip roman 2
    let d ← intervalDiff roman n 3
    let a := d + acc
    if suff = s "m" ∨ ignore then pure [tupleToString n a (s "M")]
    else if suff = s "m7" ∨ ignore then pure [tupleToString n a (s "M7")]
    else if suff = [] ∨ ignore then pure [tupleToString n a []]
    else pure []
  else pure []

def substituteMajorForMinor (p : Str) (ignore : Bool) : Except Err (List Str) :=
  let (roman, acc, suff) := parseString p
  if suff = s "M" ∨ suff = s "M7" ∨ (suff = [] ∧ [s "I", s "IV", s "V"].contains roman) ∨ ignore then do
    let n ← skip roman 5
    let d ← intervalDiff roman n 9
    let a := d + acc
    if suff = s "M" ∨ ignore then pure [tupleToString n a (s "m")]
    else if suff = s "M7" ∨ ignore then pure [tupleToString n a (s "m7")]
    else if suff = [] ∨ ignore then pure [tupleToString n a []]
    else pure []
  else pure []

def dimGuard (roman suff : Str) (ignore : Bool) : Bool :=
  suff = s "dim7" ∨ suff = s "dim" ∨ (suff = [] ∧ roman = s "VII") ∨ ignore

def substituteDimForDim (p : Str) (ignore : Bool) : Except Err (List Str) :=
  let (roman, acc, suff) := parseString p
  if dimGuard roman suff ignore then
    let suff := if suff = [] then s "dim" else suff
    let rec go : Nat → Str → Int → List Str → Except Err (List Str)
      | 0, _, _, res => pure res
      | k+1, last, acc, res => do
        let nxt ← skip last 2
        let d ← intervalDiff last nxt 3
        go k nxt (acc + d) (res ++ [tupleToString nxt (acc + d) suff])
    go 3 roman acc []
  else pure []

def substituteDimForDom (p : Str) (ignore : Bool) : Except Err (List Str) :=
  let (roman, acc, suff) := parseString p
  if dimGuard roman suff ignore then
    let rec go : Nat → Str → List Str → Except Err (List Str)
      | 0, _, res => pure res
      | k+1, last, res => do
        let nxt ← skip last 2
        let dom ← skip last 5
        let d ← intervalDiff last dom 8
        go k nxt (res ++ [tupleToString dom (d + acc) (s "dom7")])
    go 4 roman []
  else pure []

def substTable : List (Str × Str) :=
  [(s "I", s "III"), (s "I", s "VI"), (s "IV", s "II"), (s "IV", s "VI"), (s "V", s "VII"), (s "V", s "VIIdim7"),
   (s "V", s "IIdim7"), (s "V", s "IVdim7"), (s "V", s "bVIIdim7")]

/-- one level of `substitute` -/
def substituteOnce (p : Str) : Except Err (List Str) := do
  let (roman, acc, suff) := parseString p
  let r1 : List Str :=
    if suff = [] ∨ suff = s "7" then
      substTable.flatMap fun sub =>
        let r := if roman = sub.1 then some sub.2 else if roman = sub.2 then some sub.1 else none
        match r with
        | .none => []
        | some r =>
          [tupleToString r acc []] ++
            (if r.getLast? ≠ some '7' then [tupleToString r acc (s "7")] else [tupleToString r.dropLast acc []])
    else []
  let r2 : List Str := if suff = [] ∨ suff = s "M" ∨ suff = s "m" then [tupleToString roman acc (suff ++ s "7")] else []
  let r3 ← if suff = s "m" ∨ suff = s "m7" then do
      let n ← skip roman 2
      let d ← intervalDiff roman n 3
      pure [tupleToString n (d + acc) (s "M"), tupleToString n (d + acc) (s "M7")]
    else pure []
  let r4 ← if suff = s "M" ∨ suff = s "M7" then do
      let n ← skip roman 5
      let d ← intervalDiff roman n 9
      pure [tupleToString n (d + acc) (s "m"), tupleToString n (d + acc) (s "m7")]
    else pure []
  let r5 ← if suff = s "dim7" ∨ suff = s "dim" then do
      let n5 ← skip roman 5
      let n1 ← skip roman 1
      let d1 ← intervalDiff roman n1 1
      let rec go : Nat → Str → Int → List Str → Except Err (List Str)
        | 0, _, _, res => pure res
        | k+1, last, acc, res => do
          let nxt ← skip last 2
          let d ← intervalDiff last nxt 3
          go k nxt (acc + d) (res ++ [tupleToString nxt (acc + d) suff])
      let cyc ← go 4 roman acc []
      pure ([tupleToString n5 acc (s "dom7"), tupleToString n1 (acc + d1) (s "dom7")] ++ cyc)
    else pure []
  pure (r1 ++ r2 ++ r3 ++ r4 ++ r5)

/-- `substitute(progression, index, depth)`: only the element at `index` matters -/
def substitute : Nat → Str → Except Err (List Str)
  | 0, p => substituteOnce p
  | d+1, p => do
    let res ← substituteOnce p
    let res2 ← res.foldlM (fun (acc : List Str) (x : Str) => do
      let r ← substitute d x
      pure (acc ++ r)) []
    pure (res ++ res2)

/-! ### `progressions.determine` -/
def funcDict : List (Str × Str) :=
  [(s "I", s "tonic"), (s "ii", s "supertonic"), (s "iii", s "mediant"), (s "IV", s "subdominant"), (s "V", s "dominant"),
   (s "vi", s "submediant"), (s "vii", s "subtonic")]
def expectedChord : List (Str × Str × Str) :=
  [(s "I", s "M", s "M7"), (s "ii", s "m", s "m7"), (s "iii", s "m", s "m7"), (s "IV", s "M", s "M7"), (s "V", s "M", s "7"),
   (s "vi", s "m", s "m7"), (s "vii", s "dim", s "m7b5")]
def intervalFunc : List (Str × Str) :=
  [(s "unison", s "I"), (s "second", s "ii"), (s "third", s "iii"), (s "fourth", s "IV"), (s "fifth", s "V"),
   (s "sixth", s "vi"), (s "seventh", s "vii")]

def splitOnSpace (x : Str) : Str × Str :=
  (x.takeWhile (· != ' '), (x.dropWhile (· != ' ')).drop 1)

def determineOne (name key : Str) (short : Bool) : Except Err Str :=
  match name with
  | [] => .error .index
  | l :: t => do
    let accs := t.takeWhile (fun ch => ch == '#' || ch == 'b')
    let root := l :: accs
    let chordType := t.drop accs.length
    let iv ← Intervals.determine key root false
    let (ivType, ivName) := splitOnSpace iv
    match intervalFunc.lookup ivName with
    | .none => throw .other
    | some func0 => do
      let func ← expectedChord.foldlM (fun (func : Str) (x : Str × Str × Str) =>
        if x.1 = func then
          if chordType = x.2.1 then
            if !short then match funcDict.lookup func with | some f => pure f | .none => throw .key else pure func
          else if chordType = x.2.2 then
            if short then pure (func ++ s "7")
            else match funcDict.lookup func with | some f => pure (f ++ s " seventh") | .none => throw .key
          else if short then pure (func ++ chordType)
          else match funcDict.lookup func, chordMeaning.lookup chordType with
            | some f, some m => pure (f ++ m)
            | _, _ => throw .key
        else pure func) func0
      if short then
        pure (if ivType = s "minor" then 'b' :: func else if ivType = s "augmented" then '#' :: func
              else if ivType = s "diminished" then s "bb" ++ func else func)
      else
        pure (if ivType = s "minor" then s "minor " ++ func else if ivType = s "augmented" then s "augmented " ++ func
              else if ivType = s "diminished" then s "diminished " ++ func else func)

/-- `progressions.determine(chord, key, shorthand)` for one chord (a list of note names) -/
def determine (chord : List Str) (key : Str) (short : Bool) : Except Err (List Str) := do
  match chord with
  | [] => throw .index
  | _ => do
    let types ← Chords.determine chord true false true
    types.mapM fun nm => determineOne nm key short

end Mingus.Progressions
