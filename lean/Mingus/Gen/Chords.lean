-- GENERATED stub: extraction failed (interval constructor applied to something other than the root)
namespace Mingus.Gen.Chords
end Mingus.Gen.Chords
